"""C16 — JWK import/export round-trip, RFC 7638 thumbprint, no private-key leakage, RFC 7518 member encodings."""
import base64
import hashlib
import json

import joseref as R
from cryptography.hazmat.primitives import serialization as ser
from cryptography.hazmat.primitives.asymmetric import ec, ed25519, ed448, rsa, x25519, x448

from authlib.common.encoding import int_to_base64, base64_to_int
from authlib.jose import JsonWebKey, KeySet, OctKey, RSAKey, ECKey, OKPKey, JsonWebSignature

RULE = ("fn cases: int_to_base64 / base64_to_int / as_dict / thumbprint on generated numbers and member lists against the Lean model; "
        "key cases: one (key type, curve/size, import form, private/public) per case, exported in every form, re-imported and compared with the "
        "original cryptography object; EC keys with a leading-zero coordinate are forced per curve; oct keys given as text with white space / BOM / NUL at the ends; "
        "public exports of private JWKs carrying every common member and RSA oth; non-trivial = distinct case")
ASSUMPTIONS = ["PEM / DER / encrypted PEM codecs and key generation are cryptography primitives (exercised, not modelled)",
               "as_dict is modelled for string-valued members; key_ops lists are exercised on the real code only"]

PRIVATE_ONLY = {"d", "p", "q", "dp", "dq", "qi", "oth", "k"}
EC_LEN = {"P-256": 32, "P-384": 48, "P-521": 66, "secp256k1": 32}
OKP = {"Ed25519": ed25519.Ed25519PrivateKey, "Ed448": ed448.Ed448PrivateKey, "X25519": x25519.X25519PrivateKey, "X448": x448.X448PrivateKey}
_CACHE = {}


def b64d(s):
    return base64.urlsafe_b64decode(s + "=" * (-len(s) % 4))


def make_key(kind, rng):
    """a cryptography private key (or bytes for oct) for a kind string like 'RSA-2048', 'EC-P-256', 'EC-P-256-lz', 'OKP-Ed25519', 'oct-32'"""
    if kind in _CACHE:
        return _CACHE[kind]
    parts = kind.split("-", 1)
    if kind == "RSA-2048-smalld":
        # a valid RSA key whose private exponent is short (members must stay minimal-length, never padded to the modulus size)
        import math
        base = R.keys()["rsa2"].private_numbers()
        p_, q_ = base.p, base.q
        lam = math.lcm(p_ - 1, q_ - 1)
        d_ = 65537
        while math.gcd(d_, lam) != 1:
            d_ += 2
        e_ = pow(d_, -1, lam)
        k = rsa.RSAPrivateNumbers(p=p_, q=q_, d=d_, dmp1=d_ % (p_ - 1), dmq1=d_ % (q_ - 1), iqmp=pow(q_, -1, p_),
                                  public_numbers=rsa.RSAPublicNumbers(e_, p_ * q_)).private_key(unsafe_skip_rsa_key_validation=True)
    elif parts[0] == "RSA":
        k = R.keys()["rsa1"] if parts[1] == "2048" else rsa.generate_private_key(65537, int(parts[1]))
    elif parts[0] == "EC":
        crv = parts[1].replace("-lz", "")
        cls = {v[3]: v[0] for v in R.EC_ALGS.values()}[crv]
        k = ec.generate_private_key(cls())
        if kind.endswith("-lz"):           # force a coordinate (or the scalar) with a leading zero octet
            n = EC_LEN[crv]
            for _ in range(20000):
                nums = k.private_numbers()
                if min(nums.public_numbers.x, nums.public_numbers.y, nums.private_value) < 256 ** (n - 1):
                    break
                k = ec.generate_private_key(cls())
    elif parts[0] == "OKP":
        k = OKP[parts[1]].generate()
    else:
        k = bytes(rng.randrange(256) for _ in range(int(parts[1])))
    _CACHE[kind] = k
    return k


def ref_jwk(k, private):
    """independent RFC 7518 §6 / RFC 8037 JWK from a cryptography object"""
    def i2b(n, length=None):
        length = length or max(1, (n.bit_length() + 7) // 8)
        return R.b64u(n.to_bytes(length, "big")).decode()
    if isinstance(k, bytes):
        return {"kty": "oct", "k": R.b64u(k).decode()}
    if isinstance(k, rsa.RSAPrivateKey):
        nums = k.private_numbers(); pn = nums.public_numbers
        d = {"kty": "RSA", "n": i2b(pn.n), "e": i2b(pn.e)}
        if private:
            d.update(d=i2b(nums.d), p=i2b(nums.p), q=i2b(nums.q), dp=i2b(nums.dmp1), dq=i2b(nums.dmq1), qi=i2b(nums.iqmp))
        return d
    if isinstance(k, ec.EllipticCurvePrivateKey):
        nums = k.private_numbers(); pn = nums.public_numbers
        crv = {"secp256r1": "P-256", "secp384r1": "P-384", "secp521r1": "P-521", "secp256k1": "secp256k1"}[k.curve.name]
        n = EC_LEN[crv]
        d = {"kty": "EC", "crv": crv, "x": i2b(pn.x, n), "y": i2b(pn.y, n)}
        if private:
            d["d"] = i2b(nums.private_value, n)
        return d
    crv = [c for c, cls in OKP.items() if isinstance(k, cls)][0]
    d = {"kty": "OKP", "crv": crv, "x": R.b64u(k.public_key().public_bytes(ser.Encoding.Raw, ser.PublicFormat.Raw)).decode()}
    if private:
        d["d"] = R.b64u(k.private_bytes(ser.Encoding.Raw, ser.PrivateFormat.Raw, ser.NoEncryption())).decode()
    return d


def ref_thumbprint(jwk):
    members = {"RSA": ["e", "kty", "n"], "EC": ["crv", "kty", "x", "y"], "oct": ["k", "kty"], "OKP": ["crv", "kty", "x"]}[jwk["kty"]]
    s = json.dumps({m: jwk[m] for m in members}, separators=(",", ":"), sort_keys=True)
    return R.b64u(hashlib.sha256(s.encode()).digest()).decode()


KINDS_Q = ["RSA-2048", "RSA-2048-smalld", "RSA-1024", "EC-P-256", "EC-P-256-lz", "EC-P-384-lz", "EC-P-521", "EC-P-521-lz", "EC-secp256k1-lz", "OKP-Ed25519", "OKP-Ed448", "OKP-X25519",
           "OKP-X448", "oct-1", "oct-16", "oct-64"]
KINDS_T = KINDS_Q + ["RSA-1536", "RSA-3072", "RSA-4096", "EC-P-384", "EC-secp256k1", "oct-32", "oct-33"]
FORMS = ["object", "pem", "der-via-pem", "jwk", "jwk-json", "encrypted-pem", "rsa-d-only"]


def cases(rng, tier):
    out = []
    nums = [0, 1, 255, 256, 65535, 65536, 65537, 2 ** 64 - 1, 2 ** 64, 2 ** 255, 2 ** 256 - 1, 2 ** 521 - 1] + [rng.getrandbits(rng.choice([8, 9, 63, 257, 1024, 2048])) for _ in range(40)]
    for n in nums:
        out.append({"op": "int_b64", "n": str(n)})
    for s in ["", "AQAB", "AA", "AAAB", "AQ", "A", "!!!!", "AQAB=", "_-_-", "AQ AB", "////"] + [R.b64u(bytes(rng.randrange(256) for _ in range(rng.randint(1, 40)))).decode() for _ in range(30)]:
        out.append({"op": "b64_int", "s": s})
    for crv, ln in EC_LEN.items():
        for n in (0, 1, 255, 256 ** (ln - 1) - 1, 256 ** (ln - 1), 256 ** ln - 1, rng.getrandbits(8 * ln - 9)):
            out.append({"op": "coord", "crv": crv, "len": ln, "n": str(n)})
    kinds = KINDS_T if tier == "thorough" else KINDS_Q
    for kind in kinds:
        for form in FORMS:
            if form == "rsa-d-only" and not kind.startswith("RSA"):
                continue
            if kind.startswith("oct") and form not in ("object", "jwk", "jwk-json"):
                continue
            for private in (True, False):
                if kind.startswith("oct") and not private:
                    continue
                if form in ("encrypted-pem", "rsa-d-only") and not private:
                    continue
                for opts in ((None, {"kid": "my-kid"}, {"kid": "", "use": "sig"}, {"use": "sig", "alg": "X", "key_ops": ["sign", "verify"]})
                             if (tier == "thorough" or form in ("object", "jwk")) else (None,)):
                    out.append({"op": "key", "kind": kind, "form": form, "private": private, "options": opts})
                # the order of accesses must not matter: public PEM / DER / key object first, the JWK members afterwards
                if private and form in ("object", "pem", "jwk") and not kind.startswith("oct"):
                    for order in ("pem-first", "pubkey-first", "der-first", "private-pem-first"):
                        out.append({"op": "key", "kind": kind, "form": form, "private": private, "options": None, "order": order})
    # oct keys given as text: the key is the UTF-8 octets of the text, whatever its first and last characters are
    for t in ["secret", "secret\n", " secret", "\tsecret\r\n", "se cret", "\x0bsecret\x0c", "\ufeffsecret", "sécret ", "\x00secret\x00", " "]:
        out.append({"op": "oct_str", "text": t})
    # raw oct secrets that happen to look like JSON, through JsonWebKey.import_key(raw, {"kty": "oct"}): the key is those octets
    for t in ['{"a":1}', '{not json}', '{"kty":"oct","k":"AAAA"}', '[1]', '{}', '"x"']:
        for as_bytes in (True, False):
            out.append({"op": "oct_raw_jwk", "text": t, "bytes": as_bytes})
    # private JWKs as other software writes them (all RFC 7517 common members; RSA with the RFC 7518 §6.3.2.7 "oth" member): public exports
    for kind in ("RSA-2048", "EC-P-256", "OKP-Ed25519"):
        for oth in ((False, True) if kind.startswith("RSA") else (False,)):
            out.append({"op": "public_export", "kind": kind, "oth": oth})
    # one key set exported several times: each export is private or public as asked, whatever was exported before
    for calls in (["private", "public"], ["public", "private"], ["private-json", "public-json"], ["public-json", "private", "public"], ["private", "public-json", "private-json"]):
        out.append({"op": "keyset_hist", "kinds": ["RSA-2048", "EC-P-256", "OKP-Ed25519"], "calls": calls})
    # the same for one key object (as_json / as_dict / as_pem called several times): a private key; and a public-only key, whose private export stays an error
    for kind in ("RSA-2048", "EC-P-256", "OKP-Ed25519"):
        for calls in (["private-json", "public-json"], ["public-json", "private-json"], ["private", "public-json", "public", "private-json"], ["public-json", "public-json", "private"]):
            for holds_private in (True, False):
                out.append({"op": "key_hist", "kind": kind, "calls": calls, "holds_private": holds_private})
    # one key object, random histories of every export call (JWK dict / JSON, PEM, DER, thumbprint, public key object), from each way a key object comes into being:
    # compared call by call, and in the object's final internal state, with the Lean model of the object (Model/KeyObject.lean)
    CALLS = ["private", "public", "private-json", "public-json", "private-pem", "public-pem", "private-der", "public-der", "thumbprint", "public-key"]
    for kind in ("RSA-2048", "EC-P-256", "EC-P-521-lz", "OKP-Ed25519", "OKP-X25519"):
        for init in ("private-object", "public-object", "private-dict", "public-dict"):
            for options in (None, {"use": "sig"}, {"kid": "my-kid", "alg": "X"}):
                for _ in range(2 if tier == "quick" else 12):
                    out.append({"op": "key_obj_hist", "kind": kind, "init": init, "options": options, "calls": [rng.choice(CALLS) for _ in range(rng.randrange(1, 8))]})
    # the legacy module-level helpers authlib.jose.jwk.dumps / loads, and what an ECDH-ES encryption publishes of its ephemeral key
    for kind in ("RSA-2048", "EC-P-256", "OKP-Ed25519", "oct-16"):
        out.append({"op": "legacy_dumps", "kind": kind})
    for alg in ("ECDH-ES", "ECDH-ES+A128KW"):
        for kind in ("EC-P-256", "EC-P-521", "OKP-X25519", "OKP-X448"):
            out.append({"op": "epk_header", "alg": alg, "kind": kind})
    out.append({"op": "keyset", "kinds": ["RSA-2048", "EC-P-256-lz", "OKP-Ed25519", "oct-16"]})
    out.append({"op": "keyset", "kinds": ["EC-P-521-lz", "OKP-X25519"]})
    out.append({"op": "keyset", "kinds": ["RSA-2048", "RSA-1024", "EC-P-256", "EC-P-384-lz", "OKP-Ed25519", "OKP-Ed448"]})       # several members of one type, none with an explicit kid
    out.append({"op": "keyset", "kinds": ["oct-16", "oct-64"]})
    return out


def cls_for(k):
    if isinstance(k, (rsa.RSAPrivateKey, rsa.RSAPublicKey)): return RSAKey
    if isinstance(k, (ec.EllipticCurvePrivateKey, ec.EllipticCurvePublicKey)): return ECKey
    return OKPKey


def import_obj(obj, opts=None):
    """cryptography objects are imported through the key class (JsonWebKey.import_key takes text and dicts)"""
    return cls_for(obj).import_key(obj, opts)


def import_in_form(k, form, private, opts):
    opts = dict(opts) if opts else None
    if isinstance(k, bytes):
        if form == "object":
            return OctKey.import_key(k, opts)
        j = ref_jwk(k, True)
        return JsonWebKey.import_key(json.dumps(j) if form == "jwk-json" else j, opts) if form != "jwk-json" else JsonWebKey.import_key(json.loads(json.dumps(j)), opts)
    pub = k.public_key()
    if form == "object":
        return import_obj(k if private else pub, opts)
    if form == "pem":
        return JsonWebKey.import_key(R.pem_private(k) if private else R.pem_public(k), opts)
    if form == "der-via-pem":
        # DER → cryptography → object (the library's importer takes PEM text or objects)
        der = k.private_bytes(ser.Encoding.DER, ser.PrivateFormat.PKCS8, ser.NoEncryption()) if private else pub.public_bytes(ser.Encoding.DER, ser.PublicFormat.SubjectPublicKeyInfo)
        obj = ser.load_der_private_key(der, None) if private else ser.load_der_public_key(der)
        return import_obj(obj, opts)
    if form in ("jwk", "jwk-json"):
        j = ref_jwk(k, private)
        return JsonWebKey.import_key(json.loads(json.dumps(j)), opts)
    if form == "encrypted-pem":
        pem = k.private_bytes(ser.Encoding.PEM, ser.PrivateFormat.PKCS8, ser.BestAvailableEncryption(b"pw"))
        cls = {"RSA": RSAKey, "EC": ECKey, "OKP": OKPKey}[ref_jwk(k, False)["kty"]]
        return cls.import_key(pem, dict(opts or {}, password=b"pw"))
    if form == "rsa-d-only":
        j = ref_jwk(k, True)
        return JsonWebKey.import_key({m: j[m] for m in ("kty", "n", "e", "d")}, opts)
    raise AssertionError(form)


def same_public(a, b):
    """cryptographic identity of two cryptography public keys"""
    fmt = (ser.Encoding.Raw, ser.PublicFormat.Raw) if isinstance(a, (ed25519.Ed25519PublicKey, ed448.Ed448PublicKey, x25519.X25519PublicKey, x448.X448PublicKey)) \
        else (ser.Encoding.DER, ser.PublicFormat.SubjectPublicKeyInfo)
    return type(a).__name__ == type(b).__name__ and a.public_bytes(*fmt) == b.public_bytes(*fmt)


def impl(c):
    import random
    rng = random.Random(repr(sorted(c.items(), key=str)))
    op = c["op"]
    if op == "int_b64":
        return {"out": int_to_base64(int(c["n"])).encode().hex()}
    if op == "b64_int":
        try:
            return {"n": str(base64_to_int(c["s"]))}
        except Exception:
            return {"n": None}
    if op == "coord":
        from authlib.jose.rfc7518 import ec_key
        f = getattr(ec_key, "_coordinate_to_base64", None)
        bits = {"P-256": 256, "P-384": 384, "P-521": 521, "secp256k1": 256}[c["crv"]]
        return {"out": (f(int(c["n"]), bits) if f else int_to_base64(int(c["n"]))).encode().hex()}
    if op == "oct_raw_jwk":
        raw = c["text"].encode() if c["bytes"] else c["text"]
        try:
            key = JsonWebKey.import_key(raw, {"kty": "oct"})
            return {"k": key.as_dict(is_private=True)["k"], "thumbprint": key.thumbprint(), "kty": key.kty}
        except Exception as e:
            return {"refused": type(e).__name__}
    if op == "oct_str":
        key = OctKey.import_key(c["text"])
        kb = OctKey.import_key(c["text"].encode("utf-8"))
        return {"k": key.as_dict(is_private=True)["k"], "thumbprint": key.thumbprint(), "same_as_bytes": key.get_op_key("sign") == kb.get_op_key("sign"),
                "json_k": json.loads(key.as_json(is_private=True))["k"]}
    if op == "public_export":
        j = dict(ref_jwk(make_key(c["kind"], rng), True), use="sig", alg="X", key_ops=["sign"], x5t="AAAA", ext=True, kid="k")
        if c["oth"]:
            j["oth"] = [{"r": "Aw", "d": "BQ", "t": "Bw"}]
        key = JsonWebKey.import_key(json.loads(json.dumps(j)))
        ks = KeySet([key])
        return {"exports": {"as_dict": sorted(key.as_dict()), "as_json": sorted(json.loads(key.as_json())), "keyset.as_dict": sorted(ks.as_dict()["keys"][0]),
                            "keyset.as_json": sorted(json.loads(ks.as_json())["keys"][0])}}
    if op == "key_hist":
        key = import_in_form(make_key(c["kind"], rng), "object", c["holds_private"], None)
        res = []
        for call in c["calls"]:
            try:
                d = key.as_dict(is_private=True) if call == "private" else key.as_dict() if call == "public" else json.loads(key.as_json(is_private=True) if call == "private-json" else key.as_json())
                res.append(sorted(d))
            except ValueError:
                res.append("ValueError")
            except Exception as e:
                res.append("raised " + type(e).__name__)
        return {"exports": res}
    if op == "legacy_dumps":
        import warnings
        from authlib.jose import jwk as legacy
        k = make_key(c["kind"], rng)
        with warnings.catch_warnings():
            warnings.simplefilter("ignore")
            d = legacy.dumps(k if isinstance(k, bytes) else R.pem_private(k), kty={"RSA": "RSA", "EC": "EC", "OKP": "OKP", "oct": "oct"}[c["kind"].split("-")[0]])
            back = JsonWebKey.import_key(json.loads(json.dumps(d)))      # (the deprecated legacy.loads only takes key sets)
        want = ref_jwk(k, True)
        return {"members": sorted(d), "private_kept": all(d.get(m) == v for m, v in want.items()), "reimport_private": (not getattr(back, "public_only", False)) if not isinstance(k, bytes) else True}
    if op == "epk_header":
        from authlib.jose import JsonWebEncryption
        k = make_key(c["kind"], rng)
        key = import_obj(k.public_key())
        tok = JsonWebEncryption().serialize_compact({"alg": c["alg"], "enc": "A128GCM"}, b"x", key)
        hdr = json.loads(base64.urlsafe_b64decode(tok.split(b".")[0] + b"=="))
        return {"epk_members": sorted(hdr.get("epk", {}))}
    if op == "key_obj_hist":
        k = make_key(c["kind"], rng)
        private = c["init"].startswith("private")
        key = import_in_form(k, "object" if c["init"].endswith("object") else "jwk", private, c["options"])
        res = []
        for call in c["calls"]:
            try:
                if call in ("private", "public"):
                    d = key.as_dict(is_private=call == "private")
                elif call in ("private-json", "public-json"):
                    d = json.loads(key.as_json(is_private=call == "private-json"))
                elif call.endswith("-pem") or call.endswith("-der"):
                    b = (key.as_pem if call.endswith("pem") else key.as_der)(is_private=call.startswith("private"))
                    assert isinstance(b, bytes) and b
                    if call.endswith("pem"):
                        assert (b"PRIVATE KEY" in b) == call.startswith("private")
                    res.append("private-bytes" if call.startswith("private") else "public-bytes"); continue
                elif call == "thumbprint":
                    key.thumbprint(); res.append("done"); continue
                else:
                    assert key.get_public_key() is not None
                    res.append("done"); continue
                res.append(sorted([m, v] for m, v in d.items()))
            except ValueError:
                res.append("ValueError")
        return {"exports": res, "state": {"private_key": bool(key.private_key), "public_key": bool(key.public_key), "dict_loaded": bool(key._dict_data)}}
    if op == "keyset_hist":
        ks = KeySet([import_in_form(make_key(k, rng), "object", True, None) for k in c["kinds"]])
        res = []
        for call in c["calls"]:
            try:
                d = ks.as_dict(is_private=True) if call == "private" else ks.as_dict() if call == "public" else json.loads(ks.as_json(is_private=True) if call == "private-json" else ks.as_json())
                res.append(sorted({m for k in d["keys"] for m in k}))
            except Exception as e:
                res.append("raised " + type(e).__name__)
        return {"exports": res}
    if op == "keyset":
        ks = KeySet([import_in_form(make_key(k, rng), "object", True, None) for k in c["kinds"]])
        pub = ks.as_dict()
        keys = [make_key(k, rng) for k in c["kinds"]]
        want = [ref_thumbprint(ref_jwk(k, False) if not isinstance(k, bytes) else {"kty": "oct", "k": R.b64u(k).decode()}) for k in keys]
        # the same set imported from a JWKS document whose members carry no kid (public members; oct keys have only the private form)
        doc = {"keys": [ref_jwk(k, False) if not isinstance(k, bytes) else {"kty": "oct", "k": R.b64u(k).decode()} for k in keys]}
        try:
            ks2 = JsonWebKey.import_key_set(json.loads(json.dumps(doc)))
            kids2 = [m.get("kid") for m in ks2.as_dict()["keys"]]
            found = None
        except Exception as e:
            kids2, found = "raised " + type(e).__name__, None
        return {"public_members": sorted({m for k in pub["keys"] for m in k}), "_pub": pub, "_json": ks.as_json(),
                "kids": [m.get("kid") for m in pub["keys"]], "kids_imported": kids2, "want_kids": want, "found": found}
    return impl_key(c, rng)


def impl_key(c, rng):
    k = make_key(c["kind"], rng)
    private = c["private"]
    res = {"notes": []}
    key = import_in_form(k, c["form"], private, c["options"])
    is_oct = isinstance(k, bytes)
    order = c.get("order")
    if order == "pem-first": key.as_pem()
    elif order == "pubkey-first": key.get_public_key()
    elif order == "der-first": key.as_der()
    elif order == "private-pem-first": key.as_pem(is_private=True)
    ref_pub = None if is_oct else k.public_key()
    res["kty"] = key.kty
    d_pub = dict(key.as_dict())
    res["public_dict"] = {m: v for m, v in d_pub.items()}
    try:
        res["private_dict"] = dict(key.as_dict(is_private=True)) if not is_oct else dict(key.as_dict(is_private=True))
    except ValueError:
        res["private_dict"] = "ValueError"
    res["thumbprint"] = key.thumbprint()
    res["json_equal"] = json.loads(key.as_json()) == json.loads(json.dumps(d_pub))
    # re-import of every export
    checks = {}
    if not is_oct:
        for name, exported in (("dict", d_pub), ("json", json.loads(key.as_json())), ("pem", key.as_pem()), ("der", None)):
            try:
                if name == "der":
                    obj = ser.load_der_public_key(key.as_der())
                    k2 = import_obj(obj)
                else:
                    k2 = JsonWebKey.import_key(exported)
                checks["pub:" + name] = same_public(k2.get_public_key(), ref_pub) and k2.thumbprint() == res["thumbprint"]
            except Exception as e:
                checks["pub:" + name] = f"raised {type(e).__name__}: {e}"
        if private:
            for name in ("dict", "pem", "der", "encrypted-pem"):
                try:
                    if name == "dict":
                        k2 = JsonWebKey.import_key(dict(key.as_dict(is_private=True)))
                    elif name == "pem":
                        k2 = JsonWebKey.import_key(key.as_pem(is_private=True))
                    elif name == "der":
                        k2 = import_obj(ser.load_der_private_key(key.as_der(is_private=True), None))
                    else:
                        cls = type(key)
                        k2 = cls.import_key(key.as_pem(is_private=True, password=b"pw"), {"password": b"pw"})
                    ok = same_public(k2.get_public_key(), ref_pub) and not k2.public_only
                    # interchangeable for signing / verification
                    alg = {"RSA": "RS256", "OKP": "EdDSA"}.get(key.kty) or {"P-256": "ES256", "P-384": "ES384", "P-521": "ES512", "secp256k1": "ES256K"}[d_pub["crv"]]
                    if key.kty != "OKP" or d_pub["crv"].startswith("Ed"):
                        jws = JsonWebSignature()
                        t = jws.serialize_compact({"alg": alg}, b"x", k2)
                        jws.deserialize_compact(t, key)
                        ok = ok and R.verify(alg, k, *(lambda p: (p[0], base64.urlsafe_b64decode(p[1] + b"=" * (-len(p[1]) % 4))))(t.rsplit(b".", 1)))
                    checks["priv:" + name] = ok
                except Exception as e:
                    checks["priv:" + name] = f"raised {type(e).__name__}: {e}"
    else:
        k2 = JsonWebKey.import_key(dict(key.as_dict(is_private=True)))
        checks["oct:dict"] = k2.get_op_key("sign") == k
    res["reimport"] = checks
    res["_ref_public"] = ref_jwk(k, False)
    res["_ref_private"] = ref_jwk(k, True)
    res["_tokens"] = [[m, v] for m, v in key.tokens.items() if isinstance(v, str)]
    res["_nonstr"] = [m for m, v in key.tokens.items() if not isinstance(v, str)]
    return res


def _rng_for_model():
    import random
    return random.Random(0)          # (make_key caches per kind: the key is the one impl used)


def kind_of(kty):
    return {"RSA": "rsa", "EC": "ec", "OKP": "okp", "oct": "oct"}[kty]


def model_line(c):
    op = c["op"]
    if op == "int_b64":
        return {"op": op, "n": c["n"]}
    if op == "b64_int":
        return {"op": op, "s": c["s"].encode().hex()}
    if op == "coord":
        return {"op": op, "len": c["len"], "n": c["n"]}
    if op == "key_obj_hist":
        k = make_key(c["kind"], _rng_for_model())
        pub, priv = ref_jwk(k, False), ref_jwk(k, True)
        private = c["init"].startswith("private")
        return {"op": "key_hist", "kind": kind_of(pub["kty"]), "kty": pub["kty"], "pub": [[m, v] for m, v in pub.items() if m != "kty"], "priv": [[m, v] for m, v in priv.items() if m != "kty"],
                "options": [[m, v] for m, v in (c["options"] or {}).items()], "init": c["init"], "raw": [[m, v] for m, v in (priv if private else pub).items()],
                "thumb": ref_thumbprint(pub), "calls": c["calls"]}
    if op == "key":
        o = impl(c)
        if o["kty"] == "oct" or o["_nonstr"]:
            return {"op": "thumbprint", "kind": kind_of(o["kty"]), "tokens": o["_tokens"]}
        return {"op": "as_dict", "kind": kind_of(o["kty"]), "kty": o["kty"], "tokens": o["_tokens"], "isPrivate": False, "thumb": o["thumbprint"]}
    return None


def project(c, out):
    op = c["op"]
    if op in ("int_b64", "b64_int", "coord"):
        return out
    if op == "key":
        if out["kty"] == "oct" or out["_nonstr"]:
            return {"thumbprint": out["thumbprint"]}
        return {"members": sorted([m, v] for m, v in out["public_dict"].items())}
    return out


def oracle(c, out):
    v = []
    op = c["op"]
    def bad(what, **sig):
        v.append((what, dict(sig, op=op)))
    if op == "int_b64":
        n = int(c["n"])
        dec = b64d(bytes.fromhex(out["out"]).decode())
        if int.from_bytes(dec, "big") != n or (dec[:1] == b"\x00"):
            bad("int_to_base64 is not the minimal-length big-endian encoding", kind="int-encoding")
    elif op == "coord":
        dec = b64d(bytes.fromhex(out["out"]).decode())
        if len(dec) != c["len"] or int.from_bytes(dec, "big") != int(c["n"]):
            bad(f"EC member encoded on {len(dec)} octets instead of the full {c['len']}", kind="ec-length", crv=c["crv"])
    elif op == "oct_raw_jwk":
        want = R.b64u(c["text"].encode()).decode()
        if out.get("k") != want or out.get("kty") != "oct":
            bad(f"JsonWebKey.import_key({c['text']!r} as {'bytes' if c['bytes'] else 'str'}, kty=oct): {out}; the raw key octets encode as {want!r}", kind="member-encoding", member="k",
                kty="oct", form="raw-json-lookalike")
    elif op == "oct_str":
        raw = c["text"].encode("utf-8")
        want = R.b64u(raw).decode()
        if out["k"] != want or out["json_k"] != want or not out["same_as_bytes"]:
            bad(f"oct key imported from the text {c['text']!r}: k is {out['k']!r}, the raw key octets encode as {want!r}", kind="member-encoding", member="k", kty="oct", form="str")
        elif out["thumbprint"] != ref_thumbprint({"kty": "oct", "k": want}):
            bad(f"oct key imported from the text {c['text']!r}: thumbprint differs from the independent RFC 7638 value", kind="thumbprint", kty="oct", form="str")
    elif op == "key_hist":
        for call, members in zip(c["calls"], out["exports"]):
            where = f"{call} export #{c['calls'].index(call) + 1} of a {c['kind']} key object ({'private' if c['holds_private'] else 'public-only'}) in the history {c['calls']}"
            if call.startswith("private"):
                if not c["holds_private"]:
                    if members != "ValueError":
                        bad(f"{where}: a private export of a public-only key is not an error ({members})", kind="private-export-of-public", where="key-history"); break
                elif isinstance(members, str) or "d" not in members:
                    bad(f"{where}: no private members ({members})", kind="private-export", where="key-history"); break
            else:
                if isinstance(members, str):
                    bad(f"{where}: {members}", kind="reimport", via="history"); break
                leak = PRIVATE_ONLY & set(members)
                if leak:
                    bad(f"{where} contains private members {sorted(leak)}", kind="private-leak", where="key-history"); break
    elif op == "legacy_dumps":
        if not out["private_kept"] or not out["reimport_private"]:
            bad(f"authlib.jose.jwk.dumps of a private {c['kind']} key gives members {out['members']}: the export does not hold the key's private members / re-imports as a public key",
                kind="private-export", where="legacy-dumps")
    elif op == "epk_header":
        leak = PRIVATE_ONLY & set(out["epk_members"])
        if leak:
            bad(f"{c['alg']} over {c['kind']}: the ephemeral public key published in the JWE header contains private members {sorted(leak)}", kind="private-leak", where="epk")
    elif op == "key_obj_hist":
        k = make_key(c["kind"], _rng_for_model())
        private = c["init"].startswith("private")
        pub, priv = ref_jwk(k, False), ref_jwk(k, True)
        extra = dict(c["options"] or {})
        extra.setdefault("kid", ref_thumbprint(pub))
        want_pub, want_priv = sorted([m, v] for m, v in dict(pub, **extra).items()), sorted([m, v] for m, v in dict(priv, **extra).items())
        def within(got, core, full):
            # the key's members and its kid exactly; the other common parameters (use, alg, …) may or may not be carried by an export
            g = {m: v for m, v in got} if isinstance(got, list) else None
            return g is not None and all(g.get(m) == v for m, v in dict(core, kid=extra["kid"]).items()) and all([m, v] in full for m, v in g.items())
        for i, (call, got) in enumerate(zip(c["calls"], out["exports"])):
            where = f"{c['kind']} key object from a {c['init']} (options {c['options']}), call #{i + 1} {call!r} of the history {c['calls']}"
            if call.startswith("private"):
                if not private:
                    if got != "ValueError":
                        bad(f"{where}: a private export of a public-only key returned {str(got)[:80]}", kind="private-export", where="key-object-history"); break
                elif call.endswith("pem") or call.endswith("der"):
                    if got != "private-bytes":
                        bad(f"{where}: {got}", kind="private-export", where="key-object-history"); break
                elif not within(got, priv, want_priv):
                    bad(f"{where}: private JWK export differs from the key's RFC 7518 members + options", kind="history-dependent", where="key-object-history"); break
            elif call.startswith("public-") and (call.endswith("pem") or call.endswith("der")):
                if got != "public-bytes":
                    bad(f"{where}: {got}", kind="reimport", via="history"); break
            elif call.startswith("public") and call != "public-key":
                leak = PRIVATE_ONLY & {m for m, _ in got} if isinstance(got, list) else {"?"}
                if leak:
                    bad(f"{where}: public export contains private members {sorted(leak)}", kind="private-leak", where="key-object-history"); break
                if not within(got, pub, want_pub):
                    bad(f"{where}: public JWK export differs from the key's RFC 7518 members + options", kind="history-dependent", where="key-object-history"); break
    elif op == "keyset_hist":
        for call, members in zip(c["calls"], out["exports"]):
            if isinstance(members, str):
                bad(f"key set export ({call}) {members} in the history {c['calls']}", kind="private-export", where="keyset"); break
            leak = PRIVATE_ONLY & set(members)
            if call.startswith("public") and leak:
                bad(f"public export of a key set contains private members {sorted(leak)} after the history {c['calls']}", kind="private-leak", where="keyset-history"); break
            if call.startswith("private") and "d" not in members:
                bad(f"private export of a key set of private keys has no private members after the history {c['calls']}", kind="private-export", where="keyset-history"); break
    elif op == "public_export":
        for name, members in out["exports"].items():
            leak = PRIVATE_ONLY & set(members)
            if leak:
                bad(f"public export ({name}) of a private {c['kind']} JWK contains private members {sorted(leak)}", kind="private-leak", where=name); break
    elif op == "keyset":
        leak = PRIVATE_ONLY & set(out["public_members"])
        kinds = c["kinds"]
        if "oct-16" in kinds:
            leak -= {"k"}          # an oct key has no public form (DESIGN §3.2 observation)
        if leak:
            bad(f"public export of a key set contains private members {sorted(leak)}", kind="private-leak", where="keyset")
        if json.loads(out["_json"]) != json.loads(json.dumps(out["_pub"])):
            bad("KeySet.as_json differs from as_dict", kind="json-dict")
        if out["kids"] != out["want_kids"] or out["kids_imported"] != out["want_kids"]:
            bad(f"a key set of {len(out['want_kids'])} keys ({kinds}, no explicit kid) exports members with thumbprints {out['kids']} (built from objects) / {out['kids_imported']} "
                f"(imported from a JWKS document); the keys' RFC 7638 thumbprints are {out['want_kids']}", kind="keyset-members")
        elif out["found"] is not None and not all(out["found"]):
            bad(f"find_by_kid on an imported key set does not return the member with that thumbprint: {out['found']}", kind="keyset-members")
    elif op == "key":
        kty = out["kty"]
        refpub, refpriv = out["_ref_public"], out["_ref_private"]
        pd = out["public_dict"]
        sig = dict(kty=kty, kind_=c["kind"].split("-lz")[0], form=c["form"])
        if kty != "oct":
            leak = PRIVATE_ONLY & set(pd)
            if leak:
                bad(f"public export contains private members {sorted(leak)}", kind="private-leak", where="as_dict", **sig)
            for m, val in refpub.items():
                if pd.get(m) != val:
                    bad(f"public member {m} is {pd.get(m)!r}, RFC 7518 encoding is {val!r}", kind="member-encoding", member=m, **sig)
            if c["private"]:
                if out["private_dict"] == "ValueError":
                    bad("private export of a private key refused", kind="private-export", **sig)
                else:
                    for m, val in refpriv.items():
                        if out["private_dict"].get(m) != val:
                            bad(f"private member {m} differs from the RFC 7518 encoding", kind="member-encoding", member=m, **sig)
            elif out["private_dict"] != "ValueError":
                bad("private export of a public-only key is not an error", kind="private-export-of-public", **sig)
        else:
            if pd.get("k") != refpub["k"]:
                bad("oct k is not the raw key octets", kind="member-encoding", member="k", **sig)
        if out["thumbprint"] != ref_thumbprint(refpub):
            bad(f"thumbprint {out['thumbprint']} differs from the independent RFC 7638 value {ref_thumbprint(refpub)}", kind="thumbprint", **sig)
        if not out["json_equal"]:
            bad("as_json differs from as_dict", kind="json-dict", **sig)
        for name, ok in out["reimport"].items():
            if ok is not True:
                bad(f"export/import via {name} does not give a cryptographically identical key: {ok}", kind="reimport", via=name, **sig)
    return v


def classify(c, out):
    return c["op"] + ("/" + c["kind"].split("-")[0] + "/" + c["form"] if c["op"] == "key" else "/" + c["kind"].split("-")[0] + "/" + c["init"] if c["op"] == "key_obj_hist" else "")


def nontrivial(c, out):
    return c


def search(breaks, rng, known, match_known):
    for c in cases(rng, "thorough"):
        o = impl(c)
        for what, sig in oracle(c, o):
            if match_known(known, sig) is None:
                return {"what": what, "sig": sig, "case": c, "impl": project(c, o)}
    return None
