"""C18 — server metadata validation (RFC 8414 / OIDC Discovery) and dynamic client registration / update (RFC 7591 / 7592)."""
import copy
import os

import regworld as rw

RULE = ("metadata: one case = one document built from a valid base (3 bases per class) by deleting, retyping or replacing one member or a pair of members with values "
        "from a pool (null, \"\", 0, 1, true, false, [], {}, non-empty object, strings, URLs of every shape, arrays of strings / objects / arrays, the enumerated values and "
        "near-misses), validated by the real AuthorizationServerMetadata / OpenIDProviderMetadata and by the Lean model (outcome class and message compared). "
        "registration: one case = a register or update request (payload mutated member-wise and pair-wise; token right / wrong / absent; update addressed to own / other "
        "client, right / wrong secret, each forbidden member) against the real endpoints on an in-memory store; outcome and stored metadata compared with the model")
ASSUMPTIONS = ["AUTHLIB_INSECURE_TRANSPORT is unset", "strings are printable ASCII without brackets (IPv6 literals, whitespace stripping and IDNA checks of urlsplit are not modelled)",
               "readings (DESIGN §3): a scalar / URL member is 'present' when truthy, an array member when not null; for *_auth_methods_supported an explicit null is not an array"]

os.environ.pop("AUTHLIB_INSECURE_TRANSPORT", None)

AS_BASES = [
    {"issuer": "https://as.example", "authorization_endpoint": "https://as.example/authorize", "token_endpoint": "https://as.example/token",
     "response_types_supported": ["code"]},
    {"issuer": "https://as.example/tenant", "authorization_endpoint": "https://as.example/a", "token_endpoint": "https://as.example/t", "jwks_uri": "https://as.example/jwks",
     "registration_endpoint": "https://as.example/reg", "scopes_supported": ["a", "b"], "response_types_supported": ["code", "token"], "response_modes_supported": ["query"],
     "grant_types_supported": ["authorization_code", "refresh_token"], "token_endpoint_auth_methods_supported": ["client_secret_basic", "private_key_jwt"],
     "token_endpoint_auth_signing_alg_values_supported": ["RS256", "ES256"], "service_documentation": "https://docs.example/as", "ui_locales_supported": ["en"],
     "op_policy_uri": "https://as.example/policy", "op_tos_uri": "https://as.example/tos", "revocation_endpoint": "https://as.example/revoke",
     "revocation_endpoint_auth_methods_supported": ["client_secret_jwt"], "revocation_endpoint_auth_signing_alg_values_supported": ["HS256"],
     "introspection_endpoint": "https://as.example/introspect", "introspection_endpoint_auth_methods_supported": ["client_secret_basic"],
     "code_challenge_methods_supported": ["S256"]},
    {"issuer": "https://as.example", "response_types_supported": ["token"], "grant_types_supported": ["implicit"], "authorization_endpoint": "https://as.example/authorize"},
    {"issuer": "https://as.example", "response_types_supported": ["none"], "grant_types_supported": ["client_credentials"], "token_endpoint": "https://as.example/token"},
]
OP_EXTRA = {"jwks_uri": "https://op.example/jwks", "subject_types_supported": ["public"], "id_token_signing_alg_values_supported": ["RS256"]}
OP_BASES = [
    dict(AS_BASES[0], **OP_EXTRA),
    dict({k: v for k, v in AS_BASES[1].items() if not k.startswith(("revocation", "introspection", "code_challenge"))}, **OP_EXTRA,
         acr_values_supported=["urn:acr:1"], id_token_encryption_alg_values_supported=["RSA-OAEP"], id_token_encryption_enc_values_supported=["A128GCM"],
         userinfo_signing_alg_values_supported=["RS256", "none"], userinfo_encryption_alg_values_supported=[], userinfo_encryption_enc_values_supported=["A256GCM"],
         request_object_signing_alg_values_supported=["none", "RS256"], request_object_encryption_alg_values_supported=["RSA-OAEP"],
         request_object_encryption_enc_values_supported=["A128CBC-HS256"], display_values_supported=["page", "popup"], claim_types_supported=["normal"],
         claims_supported=["sub", "email"], claims_locales_supported=["en"], claims_parameter_supported=True, request_parameter_supported=False,
         request_uri_parameter_supported=True, require_request_uri_registration=False),
]
POOL = [None, "", 0, 1, True, False, [], {}, {"a": 1}, "x", "none", "implicit", ["x"], ["none"], ["RS256", "none"], [{}], [["a"]], ["implicit"], ["authorization_code"],
        ["client_credentials"], ["private_key_jwt"], ["client_secret_jwt", "client_secret_basic"], ["public", "pairwise"], ["public", "other"], ["page"], ["page", "tv"],
        ["normal", "distributed"], ["RS256"], ["HS256"], [1], [None], [True], "https://x.example/y", "https://x.example/y?q=1", "https://x.example/y#frag", "https://x.example?",
        "http://x.example/y", "http://localhost:8080/y", "http://localhost.attacker.example/y", "http://localhostess.example/y", "http://localhost@evil.example/y", "http://localhost/y", "HTTPS://X.EXAMPLE", "https://", "https:///path", "ftp://files.example/x", "x.example/y", "//x.example/y",
        "mailto:a@b.example", "https://u:p@x.example:8443/p", "https:x", 2, -1, "https://:8443/p", "https://user@/p"]
DROP = object()


def all_keys(op):
    from authlib.oauth2.rfc8414 import AuthorizationServerMetadata
    from authlib.oidc.discovery import OpenIDProviderMetadata
    return list((OpenIDProviderMetadata if op else AuthorizationServerMetadata).REGISTRY_KEYS)


def mutate(base, k, v):
    d = copy.deepcopy(base)
    if v is DROP:
        d.pop(k, None)
    else:
        d[k] = copy.deepcopy(v)
    return d


def metadata_cases(rng, tier):
    out = []
    for op, bases in ((False, AS_BASES), (True, OP_BASES)):
        keys = all_keys(op)
        for bi, base in enumerate(bases):
            out.append({"op": "op" if op else "as", "doc": copy.deepcopy(base), "mut": "base"})
            for k in keys:
                for v in [DROP] + POOL:
                    out.append({"op": "op" if op else "as", "doc": mutate(base, k, v), "mut": "single"})
            n_pairs = (250 if tier == "quick" else 6000)
            for _ in range(n_pairs):
                k1, k2 = rng.sample(keys, 2)
                d = mutate(mutate(base, k1, rng.choice([DROP] + POOL)), k2, rng.choice([DROP] + POOL))
                out.append({"op": "op" if op else "as", "doc": d, "mut": "pair"})
    return out


def cases(rng, tier):
    return metadata_cases(rng, tier) + registration_cases(rng, tier) + oidc_claims_cases(rng, tier)


# ---- OpenID Connect Dynamic Registration claims ------------------------------------------------------
OIDC_MAP = {"token_endpoint_auth_signing_alg_values_supported": "token_endpoint_auth_signing_alg", "subject_types_supported": "subject_type",
            "id_token_signing_alg_values_supported": "id_token_signed_response_alg", "id_token_encryption_alg_values_supported": "id_token_encrypted_response_alg",
            "id_token_encryption_enc_values_supported": "id_token_encrypted_response_enc", "userinfo_signing_alg_values_supported": "userinfo_signed_response_alg",
            "userinfo_encryption_alg_values_supported": "userinfo_encrypted_response_alg", "userinfo_encryption_enc_values_supported": "userinfo_encrypted_response_enc",
            "request_object_signing_alg_values_supported": "request_object_signing_alg", "request_object_encryption_alg_values_supported": "request_object_encryption_alg",
            "request_object_encryption_enc_values_supported": "request_object_encryption_enc"}
OIDC_METAS = [
    {},
    {"acr_values_supported": ["urn:acr:1", "urn:acr:2"], "subject_types_supported": ["public"], "token_endpoint_auth_signing_alg_values_supported": ["RS256", "ES256"],
     "id_token_signing_alg_values_supported": ["RS256", "ES256"], "id_token_encryption_alg_values_supported": ["RSA-OAEP"], "id_token_encryption_enc_values_supported": ["A128CBC-HS256", "A256GCM"],
     "userinfo_signing_alg_values_supported": ["RS256", "none"], "userinfo_encryption_alg_values_supported": ["RSA-OAEP"], "userinfo_encryption_enc_values_supported": ["A128CBC-HS256"],
     "request_object_signing_alg_values_supported": ["RS256", "none"], "request_object_encryption_alg_values_supported": ["RSA-OAEP"],
     "request_object_encryption_enc_values_supported": ["A256GCM"]},
    {"id_token_signing_alg_values_supported": ["ES256"], "subject_types_supported": ["pairwise", "public"], "acr_values_supported": []},
]
ALG_POOL = ["RS256", "ES256", "none", "HS256", "", None, 5, ["RS256"], True, {"a": 1}, "RSA-OAEP", "A128CBC-HS256", "A256GCM"]
def oidc_pool():
  return {
    "token_endpoint_auth_signing_alg": ALG_POOL, "application_type": ["web", "native", "Web", "", None, 5, ["web"], "service"],
    "sector_identifier_uri": URI_POOL[:10] + [None, 5, ["https://c.example/x"], ["https://c.example/x", "/rel"], [5], [["x"]], {"a": 1}, ["", "https://c.example/x#f"]],
    "subject_type": ["public", "pairwise", "other", "", None, 5, ["public"]],
    "id_token_signed_response_alg": ALG_POOL, "id_token_encrypted_response_alg": ALG_POOL, "id_token_encrypted_response_enc": ALG_POOL,
    "userinfo_signed_response_alg": ALG_POOL[:8], "userinfo_encrypted_response_alg": ALG_POOL[:8] + ["RSA-OAEP"], "userinfo_encrypted_response_enc": ALG_POOL[:6] + ["A128CBC-HS256"],
    "default_max_age": [0, 3600, -1, "3600", None, True, [1], {"a": 1}],
    "require_auth_time": [True, False, None, 0, 1, "true", []],
    "default_acr_values": [["urn:acr:1"], ["urn:acr:1", "urn:acr:9"], [], None, "urn:acr:1", 5, [["x"]], [5], {"urn:acr:1": 1}],
    "initiate_login_uri": URI_POOL[:8] + [None, 5],
    "request_object_signing_alg": ALG_POOL[:8], "request_object_encryption_alg": ALG_POOL[:6] + ["RSA-OAEP"], "request_object_encryption_enc": ALG_POOL[:6] + ["A256GCM", "A128CBC-HS256"],
    "request_uris": [["https://c.example/r#hash"], ["/rel"], "https://c.example/r", [], None, [""], [5], 5],
  }


def oidc_claims_cases(rng, tier):
    out = []
    for mi, meta in enumerate(OIDC_METAS):
        out.append({"op": "oidc_claims", "meta": meta, "payload": {}})
        OIDC_POOL = oidc_pool()
        for k, vals in OIDC_POOL.items():
            for v in vals:
                out.append({"op": "oidc_claims", "meta": meta, "payload": {k: copy.deepcopy(v)}})
        keys = list(OIDC_POOL)
        for _ in range(150 if tier == "quick" else 4000):
            p = {}
            for k in rng.sample(keys, rng.choice([2, 2, 3, 4])):
                p[k] = copy.deepcopy(rng.choice(OIDC_POOL[k]))
            out.append({"op": "oidc_claims", "meta": meta, "payload": p})
    return out


def run_oidc_claims(c):
    from authlib.oidc.registration import ClientMetadataClaims as OC
    from authlib.jose.errors import JoseError
    meta = copy.deepcopy(c["meta"])
    try:
        claims = OC(copy.deepcopy(c["payload"]), {}, OC.get_claims_options(meta), meta)
        claims.validate()
        stored = claims.get_registered_claims()
        return {"r": "ok", "stored": {k: _abstract(v) for k, v in stored.items()}, "_raw": stored}
    except JoseError as e:
        return {"r": "invalid", "claim": getattr(e, "claim_name", None) or e.description}
    except Exception as e:
        return {"r": "crash", "exc": type(e).__name__}


def oidc_model_line(c):
    return {"op": "oidc_claims", "meta": {"acr_values_supported": c["meta"].get("acr_values_supported") or [],
                                          "allowed": {OIDC_MAP[k]: v for k, v in c["meta"].items() if k in OIDC_MAP}}, "payload": c["payload"]}


def oidc_oracle(c, out, bad):
    if out["r"] != "ok":
        return
    st = out["_raw"]
    for k in ("sector_identifier_uri", "initiate_login_uri", "request_uris"):
        v = st.get(k)
        for u in (v if isinstance(v, list) else [v]):
            if u:
                from urllib.parse import urlsplit
                ok = isinstance(u, str) and bool(urlsplit(u).scheme and urlsplit(u).hostname)
                if not ok:
                    bad(f"stored {k} entry {u!r} is not an absolute URI", kind="stored-bad-uri", member=k)
    for mk, ck in OIDC_MAP.items():
        allowed = c["meta"].get(mk)
        v = st.get(ck)
        if allowed and v and v not in allowed:
            bad(f"stored {ck} = {v!r} is not among the server's {mk} {allowed}", kind="stored-unsupported", member=ck)
    for k in ("token_endpoint_auth_signing_alg", "id_token_signed_response_alg"):
        if st.get(k) == "none":
            bad(f"stored {k} = none", kind="stored-unsupported", member=k)
    if st.get("application_type") not in ("web", "native"):
        bad(f"stored application_type {st.get('application_type')!r}", kind="stored-unsupported", member="application_type")
    acr = c["meta"].get("acr_values_supported")
    if acr and st.get("default_acr_values") and not set(st["default_acr_values"]) <= set(acr):
        bad(f"stored default_acr_values {st['default_acr_values']!r} not supported", kind="stored-unsupported", member="default_acr_values")


# ---------------------------------------------------------------------------------------------
def run_metadata(c):
    from authlib.oauth2.rfc8414 import AuthorizationServerMetadata
    from authlib.oidc.discovery import OpenIDProviderMetadata
    cls = OpenIDProviderMetadata if c["op"] == "op" else AuthorizationServerMetadata
    try:
        cls(copy.deepcopy(c["doc"])).validate()
        return {"r": "ok"}
    except ValueError as e:
        return {"r": "err", "msg": str(e)}
    except Exception as e:
        return {"r": "crash", "exc": type(e).__name__}


def impl(c):
    if c["op"] in ("as", "op"):
        return run_metadata(c)
    if c["op"] == "oidc_claims":
        return run_oidc_claims(c)
    return run_registration(c)


def model_line(c):
    if c["op"] in ("as", "op"):
        return {"op": c["op"], "doc": c["doc"]}
    if c["op"] == "oidc_claims":
        return oidc_model_line(c)
    return registration_model_line(c)


def project(c, out):
    if c["op"] in ("as", "op"):
        return out
    if c["op"] == "oidc_claims":
        return {k: v for k, v in out.items() if not k.startswith("_")}
    return registration_project(c, out)


# ---- the statement, written independently of the validators ---------------------------------------
def _str(v):
    return isinstance(v, str)


def _https(v):
    return _str(v) and v.lower().startswith("https://")


def _urlparts(v):
    from urllib.parse import urlsplit
    return urlsplit(v)


def _is_list(v):
    return isinstance(v, list)


ARRAY_MEMBERS_AS = ["scopes_supported", "response_types_supported", "response_modes_supported", "grant_types_supported", "token_endpoint_auth_methods_supported",
                    "token_endpoint_auth_signing_alg_values_supported", "ui_locales_supported", "revocation_endpoint_auth_methods_supported",
                    "revocation_endpoint_auth_signing_alg_values_supported", "introspection_endpoint_auth_methods_supported",
                    "introspection_endpoint_auth_signing_alg_values_supported", "code_challenge_methods_supported"]
ARRAY_MEMBERS_OP_EXTRA = ["acr_values_supported", "subject_types_supported", "id_token_signing_alg_values_supported", "id_token_encryption_alg_values_supported",
                          "id_token_encryption_enc_values_supported", "userinfo_signing_alg_values_supported", "userinfo_encryption_alg_values_supported",
                          "userinfo_encryption_enc_values_supported", "request_object_signing_alg_values_supported", "request_object_encryption_alg_values_supported",
                          "request_object_encryption_enc_values_supported", "display_values_supported", "claim_types_supported", "claims_supported", "claims_locales_supported"]
ALG_PAIRS = [("token_endpoint_auth_signing_alg_values_supported", "token_endpoint_auth_methods_supported"),
             ("revocation_endpoint_auth_signing_alg_values_supported", "revocation_endpoint_auth_methods_supported"),
             ("introspection_endpoint_auth_signing_alg_values_supported", "introspection_endpoint_auth_methods_supported")]


def conforms(doc, op):
    """why the document violates the listed rules of RFC 8414 / OIDC Discovery (None = it satisfies them), under the readings in ASSUMPTIONS"""
    keys = all_keys(op)
    g = doc.get
    iss = g("issuer")
    if not iss: return "issuer missing"
    if not _https(iss): return "issuer not https"
    p = _urlparts(iss)
    if p.query or p.fragment: return "issuer has query or fragment"
    arrays = [k for k in ARRAY_MEMBERS_AS + (ARRAY_MEMBERS_OP_EXTRA if op else []) if k in keys]
    for k in arrays:
        if g(k) is not None and not _is_list(g(k)): return f"{k} is not an array"
    for k in ("token_endpoint_auth_methods_supported", "revocation_endpoint_auth_methods_supported", "introspection_endpoint_auth_methods_supported"):
        if k in keys and k in doc and doc[k] is None: return f"{k} is null"
    grants = g("grant_types_supported") if _is_list(g("grant_types_supported")) else ["authorization_code", "implicit"]
    ae = g("authorization_endpoint")
    if ae:
        if not _https(ae): return "authorization_endpoint not https"
    elif any(x in ("authorization_code", "implicit") for x in grants if _str(x)): return "authorization_endpoint missing"
    if not (_is_list(g("grant_types_supported")) and len(g("grant_types_supported")) == 1 and g("grant_types_supported")[0] == "implicit"):
        te = g("token_endpoint")
        if not te: return "token_endpoint missing"
        if not _https(te): return "token_endpoint not https"
    for k in ("jwks_uri", "registration_endpoint", "revocation_endpoint", "introspection_endpoint"):
        if k in keys and g(k) and not _https(g(k)): return f"{k} not https"
    if not g("response_types_supported"): return "response_types_supported missing"
    for alg, meth in ALG_PAIRS:
        if alg not in keys: continue
        methods = doc[meth] if meth in doc else ["client_secret_basic"]
        if any(m in ("private_key_jwt", "client_secret_jwt") for m in methods if _str(m)) and not g(alg): return f"{alg} missing although JWT client authentication is advertised"
        if g(alg) and "none" in g(alg): return f"{alg} contains none"
    for k in ("service_documentation", "op_policy_uri", "op_tos_uri"):
        v = g(k)
        if k in keys and v:
            if not _str(v): return f"{k} not a string"
            p = _urlparts(v)
            if not (p.scheme and p.hostname): return f"{k} not a URL"
    if op:
        if not g("jwks_uri"): return "jwks_uri missing"
        st = g("subject_types_supported")
        if st is None: return "subject_types_supported missing"
        if not set(x for x in st if _str(x) or True) <= {"pairwise", "public"}: return "subject_types_supported outside pairwise/public"
        ia = g("id_token_signing_alg_values_supported")
        if ia is None: return "id_token_signing_alg_values_supported missing"
        if "RS256" not in ia: return "id_token_signing_alg_values_supported lacks RS256"
        for k, allowed in (("display_values_supported", {"page", "popup", "touch", "wap"}), ("claim_types_supported", {"normal", "aggregated", "distributed"})):
            if g(k) is not None and not set(g(k)) <= allowed: return f"{k} outside the enumerated values"
        for k in ("claims_parameter_supported", "request_parameter_supported", "request_uri_parameter_supported", "require_request_uri_registration"):
            if k in doc and doc[k] not in (True, False): return f"{k} not boolean"
    return None


def hashable_lists(doc):
    for v in doc.values():
        if isinstance(v, list) and any(isinstance(x, (dict, list)) for x in v):
            return False
    return True


def oracle(c, out):
    v = []
    def bad(what, **sig):
        v.append((what, sig))
    if c["op"] in ("as", "op"):
        doc = c["doc"]
        if not hashable_lists(doc):
            return v            # arrays of objects / arrays: set() raises TypeError, outside the guard of the theorem
        try:
            why = conforms(doc, c["op"] == "op")
        except TypeError:
            return v
        accepted = out["r"] == "ok"
        if accepted and why:
            localhost = any(isinstance(x, str) and x.lower().startswith("http://localhost:") for x in doc.values())
            bad(f"{'OpenID provider' if c['op'] == 'op' else 'authorization server'} metadata accepted although: {why}",
                kind="invalid-accepted", why=("http-localhost" if localhost and "https" in why else why.split(" ", 1)[-1]))
        if not accepted and why is None:
            bad(f"valid metadata rejected: {out}", kind="valid-rejected", how=out.get("msg") or out.get("exc"))
        return v
    if c["op"] == "oidc_claims":
        oidc_oracle(c, out, bad)
        return v
    return registration_oracle(c, out, bad) or v


def classify(c, out):
    if c["op"] == "oidc_claims":
        return "oidc_claims/" + out["r"]
    if c["op"] in ("as", "op"):
        return f"{c['op']}/{c['mut']}/{out['r']}"
    return f"{c['op']}/{out.get('status', out.get('raised', '?'))}"


def nontrivial(c, out):
    return c


def search(breaks, rng, known, match_known):
    for c in cases(rng, "thorough"):
        o = impl(c)
        for what, sig in oracle(c, o):
            if match_known(known, sig) is None:
                return {"what": what, "sig": sig, "case": c, "impl": o}
    return None


# ---- registration ------------------------------------------------------------------------------
SMS = [
    {"scopes_supported": ["a", "b"], "response_types_supported": ["code", "token"], "grant_types_supported": ["authorization_code", "implicit", "refresh_token"],
     "token_endpoint_auth_methods_supported": ["client_secret_basic", "none"]},
    {"scopes_supported": ["a"], "response_types_supported": ["code"], "grant_types_supported": ["authorization_code"], "token_endpoint_auth_methods_supported": ["client_secret_post"]},
    {"issuer": "https://as.example"},            # nothing advertised: no restriction derived
    {"scopes_supported": [], "response_types_supported": ["token"], "grant_types_supported": ["implicit", "client_credentials"], "token_endpoint_auth_methods_supported": []},
]
# a server without the authorization-code flow: the RFC 7591 defaults of omitted members (authorization_code / code / client_secret_basic) are not supported there
SM_IMPLICIT = {"scopes_supported": ["a"], "response_types_supported": ["token"], "grant_types_supported": ["implicit"], "token_endpoint_auth_methods_supported": ["none"]}
REG_IMPLICIT = {"redirect_uris": ["https://c.example/cb"], "scope": "a", "grant_types": ["implicit"], "response_types": ["token"], "token_endpoint_auth_method": "none"}
REG_BASE = {"redirect_uris": ["https://c.example/cb"], "scope": "a", "grant_types": ["authorization_code"], "response_types": ["code"], "token_endpoint_auth_method": "none",
            "client_uri": "https://c.example/", "client_name": "C"}
URI_POOL = ["https://c.example/x", "https://c.example/x#frag", "/relative", "c.example/x", "//c.example/x", "javascript:alert(1)", "ftp://files.example/x", "https:///nohost",
            "myapp://callback", "com.example.app:/cb", "https://u:p@c.example:8443/cb?x=1", "", "x", "HTTPS://C.EXAMPLE/cb", "http://c.example/cb", "urn:ietf:wg:oauth:2.0:oob",
            "https://c.example/cb#", "mailto:a@b.example", "https://:8443/cb", "https://user@/cb", "https://user:pw@:1/cb", "https://@/"]
REG_POOL = {
    "redirect_uris": [[u] for u in URI_POOL] + [["https://c.example/cb", u] for u in URI_POOL[:8]] + ["https://c.example/cb", [], None, [None], [0], [5], {"a": 1}, {"https://k.example/x": 1},
                                                                                                    [["https://a.example"]], 5, True, "", 0],
    "client_uri": URI_POOL + [None, 0, 5, [], ["https://a.example"], {"a": 1}, True],
    "logo_uri": URI_POOL[:8] + [None, 5],
    "tos_uri": URI_POOL[:6] + [None],
    "policy_uri": URI_POOL[:6] + [None],
    "jwks_uri": URI_POOL[:8] + [None, 7],
    "scope": ["a", "a b", "b a", "a z", "z", "", None, "a  b", " a ", ["a"], ["a", "z"], [], 5, True, {"a": 1}, ["a", ""], ["a", None], ["a", 0], ["", "z"]],
    "grant_types": [["authorization_code"], ["implicit"], ["password"], ["authorization_code", "refresh_token"], ["authorization_code", "zz"], [], None, "implicit", "i", [["x"]], [{}], 5,
                    True, {"implicit": 1}, {"zz": 1}, [1]],
    "response_types": [["code"], ["token"], ["id_token"], ["code", "token"], [], None, "code", "c", 5, [["x"]], {"code": 1}],
    "token_endpoint_auth_method": ["none", "client_secret_basic", "client_secret_post", "private_key_jwt", None, "", 5, ["none"], True, {"a": 1}],
    "contacts": [["a@b.example"], [], None, "a@b.example", 5, {"a": 1}],
    "client_name": ["C", "", None, 5],
    "software_id": ["s", None],
    "unregistered_member": ["kept?", 5],
    # RFC 7591 §2.2: human-readable members may be repeated with a language tag; whatever the server stores of them obeys the URI rule too
    "tos_uri#fr": URI_POOL[:6],
    "logo_uri#ja-Jpan-JP": URI_POOL[:6] + [5],
    "client_uri#de": URI_POOL[:6],
    "policy_uri#es": URI_POOL[:4],
    "client_name#fr": ["Nom", 5],
}
DROPK = "__drop__"


def reg_mutate(base, k, v):
    d = copy.deepcopy(base)
    if v == DROPK:
        d.pop(k, None)
    else:
        d[k] = copy.deepcopy(v)
    return d


def registration_cases(rng, tier):
    out = []
    def case(sm, ops, tag):
        out.append({"op": "reg", "sm": sm, "ops": ops, "tag": tag})
    reg = lambda payload, tok="initial", jwks=None: {"op": "register", "tok": tok, "payload": payload, "jwks": jwks}
    upd = lambda payload, tok, jwks=None: {"op": "update", "tok": tok, "payload": payload, "jwks": jwks}
    for si, sm in enumerate(SMS):
        case(sm, [reg(dict(REG_BASE))], "base")
        for tok in (None, "wrong"):
            case(sm, [reg(dict(REG_BASE), tok)], "no-token")
        for payload in (None, {}):
            case(sm, [reg(payload)], "empty")
        for k, vals in REG_POOL.items():
            for v in [DROPK] + vals:
                case(sm, [reg(reg_mutate(REG_BASE, k, v))], "single")
        for jw in (True, False):
            case(sm, [reg(dict(REG_BASE, jwks={"keys": [{"kty": "oct", "k": "AAAA"}]} if jw else "junk"), jwks=jw)], "jwks")
            case(sm, [reg(dict(REG_BASE, jwks={"keys": [{"kty": "oct", "k": "AAAA"}]} if jw else 5, jwks_uri="https://c.example/jwks"), jwks=jw)], "jwks")
        for _ in range(120 if tier == "quick" else 2500):
            k1, k2 = rng.sample(list(REG_POOL), 2)
            p = reg_mutate(reg_mutate(REG_BASE, k1, rng.choice([DROPK] + REG_POOL[k1])), k2, rng.choice([DROPK] + REG_POOL[k2]))
            case(sm, [reg(p)], "pair")
    for drop in ([], ["grant_types"], ["response_types"], ["token_endpoint_auth_method"], ["grant_types", "response_types"]):
        p = {k: v for k, v in REG_IMPLICIT.items() if k not in drop}
        case(SM_IMPLICIT, [reg(p)], "defaults")
        case(SM_IMPLICIT, [reg(dict(REG_IMPLICIT)), upd(dict(p, client_id="client1", client_secret="secret1"), "client1")], "defaults")
    # updates: two clients registered, then one update
    sm = SMS[0]
    two = [reg(dict(REG_BASE)), reg(dict(REG_BASE, client_uri="https://other.example/", scope="b"))]
    good = {"client_id": "client1", "client_secret": "secret1", "redirect_uris": ["https://c.example/new"], "scope": "a b", "client_uri": "https://c.example/new"}
    case(sm, two + [upd(dict(good), "client1")], "update-ok")
    case(sm, two + [upd({k: v for k, v in good.items() if k != "client_secret"}, "client1")], "update-ok")
    for tok in (None, "wrong", "initial", "client9"):
        case(sm, two + [upd(dict(good), tok)], "update-token")
    case(sm, two + [upd(dict(good, client_id="client2"), "client1")], "update-other-client")
    case(sm, two + [upd(dict(good), "client2")], "update-other-client")
    for cid in (None, "", 5, ["client1"], "client3", DROPK):
        case(sm, two + [upd(reg_mutate(good, "client_id", cid), "client1")], "update-client-id")
    for sec in ("secret2", "", None, 5, ["secret1"], "secret1x"):
        case(sm, two + [upd(dict(good, client_secret=sec), "client1")], "update-wrong-secret")
    for k in ("registration_access_token", "registration_client_uri", "client_secret_expires_at", "client_id_issued_at"):
        for v in ("x", None, 0):
            case(sm, two + [upd(dict(good, **{k: v}), "client1")], "update-server-member")
    for k, vals in REG_POOL.items():
        for v in vals:
            case(sm, two + [upd(reg_mutate(good, k, v), "client1"), upd(dict(good), "client1")], "update-single")
    for _ in range(60 if tier == "quick" else 1500):
        ops = list(two)
        for _ in range(rng.choice([1, 2, 3])):
            k = rng.choice(list(REG_POOL))
            target = rng.choice(["client1", "client2"])
            p = reg_mutate(dict(good, client_id=rng.choice([target, target, target, "client1"]), client_secret=rng.choice(["secret1", "secret2"])), k, rng.choice(REG_POOL[k]))
            if rng.random() < 0.3:
                p.pop("client_secret")
            ops.append(upd(p, target))
        case(sm, ops, "update-walk")
    # the server's metadata changes while the same endpoint instances keep serving: every request is judged by the metadata in force
    wide, narrow, nothing, other = SMS[0], SMS[1], SMS[2], SMS[3]
    p_b = dict(REG_BASE, scope="b", grant_types=["implicit"], response_types=["token"], token_endpoint_auth_method="client_secret_basic")
    p_post = dict(REG_BASE, token_endpoint_auth_method="client_secret_post")
    for first, second in ((wide, narrow), (nothing, narrow), (narrow, wide), (wide, other), (nothing, wide), (wide, nothing)):
        for probe in (p_b, p_post, dict(REG_BASE), {k: v for k, v in REG_BASE.items() if k != "token_endpoint_auth_method"}):
            case(first, [reg(dict(probe)), dict(reg(dict(probe)), sm=second), reg(dict(REG_BASE))], "metadata-change")
            case(first, [reg(dict(probe)), dict(upd(dict(probe, client_id="client1", client_secret="secret1"), "client1"), sm=second)], "metadata-change")
    return out


def _abstract(v, top=True):
    """the lossy form the model's documents have: objects by key list, nested arrays by emptiness"""
    if isinstance(v, dict):
        return {"__obj__": list(v.keys())}
    if isinstance(v, list):
        return [_abstract(x, False) for x in v] if top else {"__lst__": not v}
    return v


def run_registration(c):
    w = rw.RegWorld(copy.deepcopy(c["sm"]))
    outs = []
    for op in c["ops"]:
        if "sm" in op:
            w.server_metadata = copy.deepcopy(op["sm"])       # the same endpoint instances keep serving
        if op["op"] == "register":
            o = w.register(copy.deepcopy(op["payload"]), {"initial": rw.INITIAL_TOKEN, "wrong": "nope", None: None}.get(op["tok"], op["tok"]))
        else:
            tok = op["tok"]
            t = None if tok is None else ("rat-" + tok if tok.startswith("client") else ("nope" if tok == "wrong" else rw.INITIAL_TOKEN))
            cid = tok if tok and tok.startswith("client") else "client1"
            o = w.update(cid, copy.deepcopy(op["payload"]), t)
        outs.append(o)
    store = [[cid, cl.client_info["client_secret"], {k: _abstract(v) for k, v in cl.client_metadata.items() if k != "jwks"}] for cid, cl in sorted(w.clients.items())]
    return {"outs": outs, "store": store, "raw_store": {cid: copy.deepcopy(cl.client_metadata) for cid, cl in w.clients.items()}}


def registration_model_line(c):
    return {"op": "reg", "sm": c["sm"], "ops": c["ops"]}


def registration_project(c, out):
    outs = []
    for o in out["outs"]:
        if "raised" in o:
            outs.append({"status": 500, "error": o["raised"].split(":")[0]})
        else:
            outs.append({"status": o["status"], "error": o.get("error")})
    return {"outs": outs, "store": out["store"]}


def _abs_uri(u):
    from urllib.parse import urlsplit
    if not isinstance(u, str):
        return False
    try:
        p = urlsplit(u)
    except ValueError:
        return False
    return bool(p.scheme and p.hostname and not p.fragment)


def registration_oracle(c, out, bad):
    sm = c["sm"]
    sm_of, nreg = {}, 0
    # the store is only observed at the end; per-step `changed` flags tell which requests wrote
    for op, o in zip(c["ops"], out["outs"]):
        sm = op.get("sm", sm)
        refused = "raised" in o or o.get("status", 500) >= 400
        if not refused:
            if op["op"] == "register":
                nreg += 1
                sm_of[f"client{nreg}"] = sm
            elif op.get("tok"):
                sm_of[op["tok"]] = sm
        if refused and o.get("changed"):
            bad(f"{op['op']} was refused ({o.get('status')} {o.get('error')}) but the client store changed", kind="refused-but-stored", op=op["op"])
        if op["op"] == "register" and op["tok"] != "initial" and not refused:
            bad("registration without the valid initial access token succeeded", kind="register-without-token")
        if op["op"] == "update" and not refused:
            p = op["payload"] or {}
            tok = op["tok"]
            why = None
            if not (tok and tok.startswith("client")): why = "without a registration access token"
            elif p.get("client_id") != tok: why = "addressed to another client"
            elif "client_secret" in p and p["client_secret"] != "secret" + tok[len("client"):]: why = "carrying a wrong client_secret"
            elif any(k in p for k in ("registration_access_token", "registration_client_uri", "client_secret_expires_at", "client_id_issued_at")): why = "carrying a server-controlled member"
            if why:
                bad(f"an update {why} was accepted", kind="update-wrongly-accepted", why=why.split(" ")[0] + " " + why.split(" ")[1])
    for cid, md in out["raw_store"].items():
        sm = sm_of.get(cid, c["sm"])          # the metadata in force when this client was last written
        for k in [m for m in md if isinstance(m, str) and m.split("#", 1)[0] in ("client_uri", "logo_uri", "tos_uri", "policy_uri", "jwks_uri")]:
            v = md.get(k)
            if v and not _abs_uri(v):
                bad(f"stored {k} = {v!r} is not an absolute, fragment-free URI", kind="stored-bad-uri", member=k)
        ru = md.get("redirect_uris")
        if ru and (not isinstance(ru, list) or not all(_abs_uri(u) for u in ru)):
            bad(f"stored redirect_uris = {ru!r} contains an entry that is not an absolute, fragment-free URI", kind="stored-bad-uri", member="redirect_uris")
        def strs(x):
            # the members of the requested value as Python iterates it (an object by its keys): observation in DESIGN, not a violation
            try:
                return [e for e in x] if all(isinstance(e, str) for e in x) else None
            except TypeError:
                return None
        # members the client left out mean their RFC 7591 defaults
        if sm.get("grant_types_supported") is not None and "grant_types" not in md and "authorization_code" not in sm["grant_types_supported"]:
            bad(f"client stored without grant_types (default authorization_code) on a server that supports only {sm['grant_types_supported']}", kind="stored-unsupported", member="grant_types-default")
        if sm.get("response_types_supported") is not None and "response_types" not in md and "code" not in sm["response_types_supported"]:
            bad(f"client stored without response_types (default code) on a server that supports only {sm['response_types_supported']}", kind="stored-unsupported", member="response_types-default")
        if sm.get("grant_types_supported") is not None and md.get("grant_types"):
            g = strs(md["grant_types"])
            if g is None or not set(g) <= set(sm["grant_types_supported"]):
                bad(f"stored grant_types {md['grant_types']!r} not supported by the server {sm['grant_types_supported']}", kind="stored-unsupported", member="grant_types")
        if sm.get("response_types_supported") is not None and md.get("response_types"):
            g = strs(md["response_types"])
            if g is None or not set(g) <= set(sm["response_types_supported"]):
                bad(f"stored response_types {md['response_types']!r} not supported by the server", kind="stored-unsupported", member="response_types")
        if sm.get("scopes_supported") is not None and md.get("scope"):
            sc = md["scope"].split() if isinstance(md["scope"], str) else strs(md["scope"])
            if sc is None or not set(sc) <= set(sm["scopes_supported"]):
                bad(f"stored scope {md['scope']!r} not supported by the server {sm['scopes_supported']}", kind="stored-unsupported", member="scope")
        if sm.get("token_endpoint_auth_methods_supported"):
            if md.get("token_endpoint_auth_method") not in sm["token_endpoint_auth_methods_supported"]:
                bad(f"stored token_endpoint_auth_method {md.get('token_endpoint_auth_method')!r} not supported by the server", kind="stored-unsupported", member="token_endpoint_auth_method")
    return None
