"""C02 — algorithm allow-list, key-family matching and key selection policy; crit; HS/asymmetric confusion guard."""
import base64
import datetime
import itertools
import json

import joseref as R
from authlib.jose import JsonWebSignature, JsonWebToken, JsonWebKey, KeySet, OctKey
from authlib.jose import errors as je

RULE = ("policy cases = header alg value × allow-list shape × key argument (single key in 4 forms / KeySet / dict key set; kty, curve, private/public, "
        "use, key_ops, kid) × header kid × crit contents, each token signed with the key the policy should select; confusion cases = every text form of an "
        "asymmetric public key the library itself loads (PEM, SSH, certificate; preceded by whitespace / BOM / comment) offered as an HMAC secret; "
        "non-trivial = distinct case")
ASSUMPTIONS = ["hypothesis PemNeedsMarker of asym_text_never_hmac_key: cryptography loads only SSH public key lines starting with a key-type token or text containing a PEM armor",
               "header alg values of JSON type list/object are left to C20 (unhashable → TypeError)"]

ALG_VALUES = R.ALL_ALGS + ["HS999", "hs256", "", 5, None, True]
ALLOW = [None, ["HS256"], ["RS256", "PS256"], ["HS256", "RS256", "ES256", "EdDSA"], R.ALL_ALGS, []]
HS_KEYS = {1: b"secret-one-secret-one-secret-one", 2: b"secret-two-secret-two-secret-two"}
KTYS = [("oct", None), ("RSA", None), ("EC", "P-256"), ("EC", "P-384"), ("EC", "P-521"), ("EC", "secp256k1"), ("OKP", "Ed25519"), ("OKP", "Ed448")]


def material(kty, crv, ident):
    if kty == "oct":
        return HS_KEYS[ident]
    if kty == "RSA":
        return R.keys()[f"rsa{ident}"]
    if kty == "EC":
        return R.keys()[f"ec-{crv}-{ident}"]
    if crv == "Ed25519":
        return R.keys()[f"ed25519-{ident}"]
    return R.keys()["ed448-1"]


def signing_alg_for(kty, crv):
    return {"oct": "HS256", "RSA": "RS256", "OKP": "EdDSA"}.get(kty) or {"P-256": "ES256", "P-384": "ES384", "P-521": "ES512", "secp256k1": "ES256K"}[crv]


def kd(kty, crv, ident, private=False, use=None, key_ops=None, kid=None):
    d = {"kty": kty, "ident": ident, "isPrivate": private or kty == "oct"}
    if crv: d["crv"] = crv
    if use is not None: d["use"] = use
    if key_ops is not None: d["keyOps"] = key_ops
    if kid is not None: d["kid"] = kid
    return d


def cases(rng, tier):
    out = []
    # 1. alg value × allow-list × key family, single Key object
    for alg in ALG_VALUES:
        for allow in ALLOW:
            for kty, crv in KTYS:
                out.append({"op": "policy", "alg": alg, "allowed": allow, "arg": {"single": kd(kty, crv, 1)}, "form": "key", "hkid": None})
    # 2. key forms / private vs public / use / key_ops with the matching algorithm
    for kty, crv in KTYS:
        alg = signing_alg_for(kty, crv)
        for form in ("key", "jwk", "pem"):
            for private in (False, True):
                for use in (None, "sig", "enc", ""):
                    for ops in (None, ["verify"], ["sign"], ["sign", "verify"], []):
                        if form == "pem" and (use is not None or ops is not None or kty == "oct"):
                            continue
                        out.append({"op": "policy", "alg": alg, "allowed": None, "arg": {"single": kd(kty, crv, 1, private, use, ops)}, "form": form, "hkid": None})
    # 3. key sets: kid present / absent / unknown, 0–3 keys, kid-less members, duplicates
    sets = [[], [("k1", 1)], [(None, 1)], [("k1", 1), ("k2", 2)], [(None, 1), ("k2", 2)], [("k1", 1), (None, 2)], [("k1", 1), ("k1", 2)], [(None, 1), (None, 2)]]
    for kty, crv in (("oct", None), ("RSA", None), ("EC", "P-256")):
        alg = signing_alg_for(kty, crv)
        for ks in sets:
            for hkid in (None, "k1", "k2", "nope", ""):
                for isobj in (True, False):
                    keys = [kd(kty, crv, ident, False, None, None, kid) for kid, ident in ks]
                    out.append({"op": "policy", "alg": alg, "allowed": None, "arg": {"keySet" if isobj else "dictSet": keys}, "form": "set", "hkid": hkid})
    # 4. crit
    for crit, extra, priv in [(["exp2"], {"exp2": 1}, None), (["exp2"], {}, None), ([], {}, None), ("exp2", {"exp2": 1}, None), (["exp2"], {"exp2": 1}, ["exp2"]),
                              (["exp2"], {}, ["exp2"]), (["exp2", "b64"], {"exp2": 1, "b64": False}, ["exp2"]), (["alg"], {}, None), ([5], {}, None),
                              (["typ"], {"typ": "JWT"}, ["typ"]), (None, {"exp2": 1}, None)]:
        for kty, crv in (("oct", None), ("EC", "P-256")):
            out.append({"op": "policy", "alg": signing_alg_for(kty, crv), "allowed": None, "arg": {"single": kd(kty, crv, 1)}, "form": "key", "hkid": None,
                        "crit": crit, "extra": extra, "private_headers": priv})
    if tier == "quick":
        head = out[-400:]
        out = rng.sample(out[:-400], 1400) + head
    out += confusion_cases()
    out += extra_cases()
    return out


def extra_cases():
    """oracle-only cases: kid values of another JSON type / text, and the allow-list applied to encrypted tokens"""
    out = []
    for form in ("keySet", "dictSet"):
        for kids, hkid in (([None, "k2"], "None"), (["1", "2"], 1), (["1", "2"], "1"), ([None, "k2"], "k2"), (["True", "k2"], True), (["k1", "k2"], ["k1"]), (["k1"], "K1"),
                           (["k1", "k2"], "k1 "), (["", "k2"], None)):
            for signer in range(len(kids)):
                out.append({"op": "kidtype", "form": form, "kids": kids, "hkid": hkid, "signer": signer})
    # a key-resolver callable: the token is verified with what the callable returns and with nothing else, whatever the header offers
    for alg in ("HS256", "RS256", "ES256", "EdDSA"):
        for returns in ("right", "none", "wrong"):
            for signed_by in ("right", "attacker"):
                for jwk_header in (False, True):
                    for api in ("jws", "jwt"):
                        out.append({"op": "callable", "alg": alg, "returns": returns, "signed_by": signed_by, "jwk_header": jwk_header, "api": api})
    # use / key_ops restrictions on encryption keys: the operation each side performs must be among the permitted ones
    for alg, kind in JWE_OPS:
        for opts in ({}, {"key_ops": ["wrapKey"]}, {"key_ops": ["unwrapKey"]}, {"key_ops": ["encrypt"]}, {"key_ops": ["decrypt"]}, {"key_ops": ["sign"]}, {"key_ops": ["verify", "sign"]},
                     {"key_ops": ["deriveKey"]}, {"key_ops": ["wrapKey", "unwrapKey"]}, {"key_ops": ["encrypt", "decrypt"]}, {"key_ops": []}, {"use": "sig"}, {"use": "enc"},
                     {"use": "enc", "key_ops": ["sign"]}):
            for how in ("jwk", "options"):
                if kind == "okp" and how == "jwk":
                    continue            # the ECDH-ES algorithms take an OKP key as a Key object only
                out.append({"op": "jwe_keyops", "alg": alg, "kind": kind, "opts": opts, "how": how})
    for opts in ({}, {"use": "enc"}, {"use": "sig"}, {"key_ops": ["verify"]}, {"key_ops": ["sign"]}, {"key_ops": ["decrypt"]}, {"key_ops": ["sign", "verify"]}):
        for kind in ("rsa", "rsa_d", "ec"):
            out.append({"op": "jws_keyops", "kind": kind, "opts": opts})
    # a key set in which all members but one are of a key type the library does not know, and a token without kid: several keys exist, none is designated
    for form in ("dict", "json", "list"):
        for unknown in ({"kty": "AKP", "alg": "ML-DSA-44", "pub": "AAAA"}, {"kty": "XYZ"}):
            for n_unknown in (1, 2):
                out.append({"op": "unknown_kty_set", "form": form, "unknown": unknown, "n_unknown": n_unknown})
    # the relying-party integrations (parse_id_token): an ID token without kid against a provider JWKS of several keys — none is designated
    for fw in ("flask", "django", "starlette"):
        for nkeys in (1, 2, 3):
            for signer in range(nkeys):
                out.append({"op": "rp_kidless", "fw": fw, "nkeys": nkeys, "signer": signer})
    # a token that carries its maker's own key in a "jwk" header, presented where the caller designates a degenerate (empty) key: never accepted
    for api in ("jws", "jwt", "jwe-dir", "jwe-A256KW", "jwe-json"):
        for key in ("b''", "''", "[]", "{}", "{'keys': []}", "0", "False", "KeySet([])", "()"):
            out.append({"op": "embedded_jwk", "api": api, "key": key})
    jwe_tokens = {"dir": ("dir", "A128CBC-HS256"), "A256KW": ("A256KW", "A128GCM")}
    for name, (alg, enc) in jwe_tokens.items():
        for allow in (["HS256"], ["HS256", "HS512"], [], ["RS256", "ES256"], "default", [alg], [enc], [alg, enc], ["HS256", alg, enc], ["A128KW", "A256GCM"]):
            out.append({"op": "jwe_allow", "alg": alg, "enc": enc, "allowed": allow})
    return out


JWE_OPS = [("RSA-OAEP", "rsa_d"), ("A128KW", "oct16"), ("A256KW", "oct32"), ("A128GCMKW", "oct16"), ("dir", "oct16"), ("RSA-OAEP", "rsa"), ("RSA1_5", "rsa"), ("ECDH-ES", "ec"), ("ECDH-ES+A128KW", "ec"),
           ("ECDH-ES", "okp")]
_JK = {}


def jwe_key(kind, opts, how):
    from authlib.jose import JsonWebKey
    if not _JK:
        b = lambda x: base64.urlsafe_b64encode(x).rstrip(b"=").decode()
        _JK["oct16"] = {"kty": "oct", "k": b(b"k" * 16)}
        _JK["oct32"] = {"kty": "oct", "k": b(b"k" * 32)}
        _JK["rsa"] = dict(JsonWebKey.generate_key("RSA", 2048, is_private=True).as_dict(is_private=True))
        _JK["ec"] = dict(JsonWebKey.generate_key("EC", "P-256", is_private=True).as_dict(is_private=True))
        _JK["okp"] = dict(JsonWebKey.generate_key("OKP", "X25519", is_private=True).as_dict(is_private=True))
    if kind == "rsa_d":        # an RSA private JWK without the CRT members (RFC 7518 §6.3.2: only "d" is required)
        d = {k: v for k, v in _JK["rsa"].items() if k in ("kty", "n", "e", "d")}
    else:
        d = {k: v for k, v in _JK[kind].items() if k != "kid"}
    if how == "jwk":
        return dict(d, **opts)
    return JsonWebKey.import_key(d, dict(opts))


def impl_jwe_keyops(c):
    from authlib.jose import JsonWebEncryption
    J = JsonWebEncryption()
    hdr = {"alg": c["alg"], "enc": "A128GCM"}
    def attempt(f):
        try:
            return "ok", f()
        except Exception as e:
            return type(e).__name__, None
    enc, tok = attempt(lambda: J.serialize_compact(hdr, b"x", jwe_key(c["kind"], c["opts"], c["how"])))
    if tok is None:
        tok = J.serialize_compact(hdr, b"x", jwe_key(c["kind"], {}, "options"))
    dec, _ = attempt(lambda: J.deserialize_compact(tok, jwe_key(c["kind"], c["opts"], c["how"])))
    return {"encrypt": enc, "decrypt": dec}


def impl_jws_keyops(c):
    J = JsonWebSignature()
    alg = "ES256" if c["kind"] == "ec" else "RS256"
    def attempt(f):
        try:
            return "ok", f()
        except Exception as e:
            return type(e).__name__, None
    s_, tok = attempt(lambda: J.serialize_compact({"alg": alg}, b"x", jwe_key(c["kind"], c["opts"], "jwk")))
    if tok is None:
        tok = J.serialize_compact({"alg": alg}, b"x", jwe_key(c["kind"], {}, "jwk"))
    v_, _ = attempt(lambda: J.deserialize_compact(tok, jwe_key(c["kind"], c["opts"], "jwk")))
    return {"sign": s_, "verify": v_}


def impl_extra(c):
    if c["op"] == "jws_keyops":
        return impl_jws_keyops(c)
    if c["op"] == "jwe_keyops":
        return impl_jwe_keyops(c)
    from authlib.jose import JsonWebToken, JsonWebEncryption, jwt as default_jwt
    sec = b"0123456789abcdef0123456789abcdef"
    if c["op"] == "kidtype":
        ks = [{"kty": "oct", "k": base64.urlsafe_b64encode(bytes([65 + i]) * 32).rstrip(b"=").decode(), **({"kid": kid} if kid is not None else {})} for i, kid in enumerate(c["kids"])]
        # signed with one member of the set; the header carries the kid under test
        signer = ks[c["signer"]]
        tok = JsonWebSignature().serialize_compact({"alg": "HS256", "kid": c["hkid"]} if c["hkid"] is not None else {"alg": "HS256"}, b'{"sub":"x"}',
                                                   OctKey.import_key(signer))
        key = KeySet([OctKey.import_key(k) for k in ks]) if c["form"] == "keySet" else {"keys": ks}
        try:
            JsonWebToken(["HS256"]).decode(tok, key)
            return {"accepted": True}
        except Exception as e:
            return {"accepted": False, "error": type(e).__name__}
    if c["op"] == "rp_kidless":
        import rpclient as rc
        import memserver as ms
        ms.install_clock()
        ks = [OctKey.import_key(bytes([65 + i]) * 32, {"kid": f"k{i}"}) for i in range(c["nkeys"])]
        from authlib.jose import jwt as _jwt
        now = int(ms.CLOCK())
        # (signed with the bare octets: jwt.encode copies a Key object's kid into the header)
        tok = _jwt.encode({"alg": "HS256"}, {"iss": rc.ISSUER, "sub": "u", "aud": "cid", "exp": now + 600, "iat": now, "nonce": "n"}, bytes([65 + c["signer"]]) * 32).decode()
        r = rc.parse(c["fw"], {"id_token": tok, "access_token": "at"}, "n", jwks={"keys": [dict(k.as_dict(is_private=True)) for k in ks]})
        return {"accepted": bool(r.get("accepted")), "error": r.get("error") or r.get("raised")}
    if c["op"] == "unknown_kty_set":
        from authlib.jose import JsonWebKey
        k = OctKey.import_key(b"A" * 32)
        tok = JsonWebSignature().serialize_compact({"alg": "HS256"}, b'{"sub":"x"}', k)
        members = [dict(c["unknown"], n=i) for i in range(c["n_unknown"])] + [dict(k.as_dict(is_private=True))]
        for m in members:
            m.pop("kid", None)
        raw = {"keys": members}
        raw = json.dumps(raw) if c["form"] == "json" else members if c["form"] == "list" else raw
        try:
            ks = JsonWebKey.import_key_set(raw)
            JsonWebToken(["HS256"]).decode(tok, ks)
            return {"accepted": True}
        except Exception as e:
            return {"accepted": False, "error": type(e).__name__}
    if c["op"] == "embedded_jwk":
        k = OctKey.import_key(b"A" * 32)
        jk = dict(k.as_dict(is_private=True))
        key = eval(c["key"], {"KeySet": KeySet})
        try:
            if c["api"] in ("jws", "jwt"):
                tok = JsonWebSignature().serialize_compact({"alg": "HS256", "jwk": jk}, b'{"sub":"mallory"}', k)
                if c["api"] == "jws":
                    JsonWebSignature().deserialize_compact(tok, key)
                else:
                    JsonWebToken(["HS256"]).decode(tok, key)
            elif c["api"] == "jwe-json":
                obj = JsonWebEncryption().serialize_json({"protected": {"alg": "A256KW", "enc": "A128GCM", "jwk": jk}, "recipients": [{"header": {"jwk": jk}}]}, b"mallory", k)
                JsonWebEncryption().deserialize_json(obj, key)
            else:
                alg = c["api"].split("-", 1)[1]
                tok = JsonWebEncryption().serialize_compact({"alg": alg, "enc": "A128CBC-HS256", "jwk": jk}, b"mallory", k)
                JsonWebEncryption().deserialize_compact(tok, key)
            return {"accepted": True}
        except Exception as e:
            return {"accepted": False, "error": type(e).__name__}
    if c["op"] == "callable":
        from authlib.jose import JsonWebKey
        def key(n, private):
            if c["alg"] == "HS256":
                return OctKey.import_key(bytes([64 + n]) * 32)
            kk = R.keys()[R.key_for_alg(c["alg"], n)]
            return JsonWebKey.import_key(R.pem_private(kk) if private else R.pem_public(kk))
        signer = 1 if c["signed_by"] == "right" else 2
        header = {"alg": c["alg"]}
        if c["jwk_header"]:
            header["jwk"] = dict(key(signer, False).as_dict(is_private=(c["alg"] == "HS256")))
        tok = JsonWebSignature().serialize_compact(header, b'{"sub":"x"}', key(signer, True))
        calls = []
        def resolver(h, p):
            calls.append(1)
            return {"right": key(1, False), "none": None, "wrong": key(2, False) if signer == 1 else key(1, False)}[c["returns"]]
        try:
            if c["api"] == "jws":
                JsonWebSignature().deserialize_compact(tok, resolver)
            else:
                JsonWebToken([c["alg"]]).decode(tok, resolver)
            return {"accepted": True, "resolver_called": bool(calls)}
        except Exception as e:
            return {"accepted": False, "error": type(e).__name__, "resolver_called": bool(calls)}
    tok = JsonWebEncryption().serialize_compact({"alg": c["alg"], "enc": c["enc"]}, b'{"sub":"mallory"}', sec)
    inst = default_jwt if c["allowed"] == "default" else JsonWebToken(c["allowed"])
    try:
        inst.decode(tok, sec)
        return {"accepted": True}
    except Exception as e:
        return {"accepted": False, "error": type(e).__name__}


_TEXT = None


def asym_texts():
    """(label, bytes) for every text form of a public key the library's own loader accepts"""
    global _TEXT
    if _TEXT is not None:
        return _TEXT
    from cryptography.hazmat.primitives import serialization as ser, hashes
    from cryptography import x509
    from cryptography.x509.oid import NameOID
    forms = []
    for name in ("rsa1", "ec-P-256-1", "ed25519-1"):
        k = R.keys()[name]
        pub = k.public_key()
        forms.append((name + "/spki-pem", pub.public_bytes(ser.Encoding.PEM, ser.PublicFormat.SubjectPublicKeyInfo)))
        forms.append((name + "/ssh", pub.public_bytes(ser.Encoding.OpenSSH, ser.PublicFormat.OpenSSH)))
        if name == "rsa1":
            forms.append((name + "/pkcs1-pem", pub.public_bytes(ser.Encoding.PEM, ser.PublicFormat.PKCS1)))
        subj = x509.Name([x509.NameAttribute(NameOID.COMMON_NAME, "verif")])
        now = datetime.datetime(2026, 1, 1)
        cert = (x509.CertificateBuilder().subject_name(subj).issuer_name(subj).public_key(pub).serial_number(1)
                .not_valid_before(now).not_valid_after(now + datetime.timedelta(days=3650))
                .sign(k, None if name.startswith("ed") else hashes.SHA256()))
        forms.append((name + "/cert-pem", cert.public_bytes(ser.Encoding.PEM)))
    out = []
    for label, b in forms:
        for plabel, prefix in (("", b""), ("nl", b"\n"), ("sp", b" "), ("bom", b"\xef\xbb\xbf"), ("comment", b"# my key\n"), ("crlf", b"\r\n"), ("tab", b"\t")):
            out.append((f"{label}+{plabel}", prefix + b))
    _TEXT = out
    return out


def confusion_cases():
    out = []
    for label, raw in asym_texts():
        for as_str in (False, True):
            out.append({"op": "confusion", "label": label, "raw": raw.hex(), "as_str": as_str})
    for raw in (b"just a secret", b"BEGIN", b"----BEGIN", b"ssh-rsa", b"my-----BEGIN PGP", b""):
        out.append({"op": "confusion", "label": "plain", "raw": raw.hex(), "as_str": False})
    return out


# ---------------------------------------------------------------------------------------------- real code
def build_key(d, form):
    m = material(d["kty"], d.get("crv"), d["ident"])
    opts = {}
    if "use" in d: opts["use"] = d["use"]
    if "keyOps" in d: opts["key_ops"] = d["keyOps"]
    if "kid" in d: opts["kid"] = d["kid"]
    if d["kty"] == "oct":
        if form == "jwk":
            return dict({"kty": "oct", "k": R.b64u(m).decode()}, **opts)
        return OctKey.import_key(m, opts or None)
    pem = R.pem_private(m) if d["isPrivate"] else R.pem_public(m)
    if form == "pem":
        return pem
    k = JsonWebKey.import_key(pem, dict(opts) or None)
    if form == "jwk":
        j = dict(k.as_dict(is_private=d["isPrivate"]))
        if "kid" not in d:
            j.pop("kid", None)
        return j
    return k


def make_token(c):
    """sign with the key the policy should select (first designated candidate), using the header's alg when that is possible"""
    arg = c["arg"]
    ks = arg.get("single") and [arg["single"]] or arg.get("keySet") or arg.get("dictSet") or []
    target = None
    if "single" in arg:
        target = arg["single"]
    else:
        cand = [k for k in ks if k.get("kid") == c["hkid"]] if c["hkid"] is not None else ks
        target = cand[0] if cand else (ks[0] if ks else None)
    header = {}
    if c["alg"] is not None:
        header["alg"] = c["alg"]
    if c["hkid"] is not None:
        header["kid"] = c["hkid"]
    if c.get("crit") is not None:
        header["crit"] = c["crit"]
    header.update(c.get("extra") or {})
    hseg = R.b64u(json.dumps(header, separators=(",", ":")).encode())
    pseg = R.b64u(b'{"sub":"x"}')
    sig = b""
    if target is not None and isinstance(c["alg"], str) and c["alg"] in R.ALL_ALGS and c["alg"] != "none":
        m = material(target["kty"], target.get("crv"), target["ident"])
        try:
            sig = R.sign(c["alg"], m, hseg + b"." + pseg)
        except Exception:
            sig = b"\x00" * 32
    return hseg + b"." + pseg + b"." + R.b64u(sig), header


ERR = [(je.MissingAlgorithmError, "missing_algorithm"), (je.UnsupportedAlgorithmError, "unsupported_algorithm"), (je.InvalidUseError, "invalid_use"),
       (je.InvalidHeaderParameterNameError, "invalid_header_parameter_name"), (je.BadSignatureError, "bad_signature"), (je.DecodeError, "decode_error")]


def impl(c):
    if c["op"] == "confusion":
        return impl_confusion(c)
    if c["op"] in ("kidtype", "jwe_allow", "callable", "embedded_jwk", "unknown_kty_set", "rp_kidless", "jwe_keyops", "jws_keyops"):
        return impl_extra(c)
    tok, header = make_token(c)
    arg = c["arg"]
    algs = c["allowed"]
    try:
        if "single" in arg:
            key = build_key(arg["single"], c["form"])
            JsonWebSignature(algorithms=algs, private_headers=c.get("private_headers")).deserialize_compact(tok, key)
            return {"ok": {"ident": arg["single"]["ident"]}}
        ks = arg.get("keySet") if "keySet" in arg else arg["dictSet"]
        if "keySet" in arg:
            key = KeySet([build_key(k, "key") for k in ks])
        else:
            key = {"keys": [build_key(k, "jwk") for k in ks]}
        JsonWebToken(algs if algs is not None else R.ALL_ALGS).decode(tok, key)
        # which key verified? recompute with the reference
        for k in ks:
            m = material(k["kty"], k.get("crv"), k["ident"])
            si, sg = tok.rsplit(b".", 1)
            import base64
            if R.verify(c["alg"], m, si, base64.urlsafe_b64decode(sg + b"=" * (-len(sg) % 4))):
                return {"ok": {"ident": k["ident"]}}
        return {"ok": {"ident": -1}}
    except Exception as e:
        for cls, name in ERR:
            if isinstance(e, cls):
                return {"error": name}
        if isinstance(e, (ValueError, KeyError)):
            # a Key object of another family reaches load_pem_key → bytes(key) → KeyError: 0; still a refusal (C20 owns the exception class)
            return {"error": "key_error"}
        return {"raised": type(e).__name__ + ": " + str(e)[:80]}


def impl_confusion(c):
    raw = bytes.fromhex(c["raw"])
    arg = raw.decode("utf-8", "surrogateescape") if c["as_str"] else raw
    loads = None
    try:
        k = JsonWebKey.import_key(arg)
        loads = k.kty if k.kty != "oct" else None
    except Exception:
        loads = None
    if loads is None:
        for cls in ("RSAKey", "ECKey", "OKPKey"):
            import authlib.jose as J
            try:
                getattr(J, cls).import_key(arg); loads = cls; break
            except Exception:
                pass
    try:
        OctKey.import_key(arg)
        accepted = True
    except ValueError:
        accepted = False
    forged = None
    if accepted:
        # the attack: sign HS256 with the public text as secret, verify with key=text
        try:
            tok = JsonWebSignature().serialize_compact({"alg": "HS256"}, b"forged", OctKey.import_key(arg))
            JsonWebSignature(algorithms=["HS256", "RS256", "ES256", "EdDSA"]).deserialize_compact(tok, arg)
            forged = True
        except Exception:
            forged = False
    return {"accepted": accepted, "_loads": loads, "_forged": forged}


def model_line(c):
    if c["op"] == "jwe_keyops":
        line = {"op": "jwe_keyops", "alg": c["alg"]}
        if "use" in c["opts"]:
            line["use"] = c["opts"]["use"]
        if "key_ops" in c["opts"]:
            line["key_ops"] = c["opts"]["key_ops"]
        return line
    if c["op"] == "callable":
        # the key argument is a resolver; the token may carry its signer's key in a jwk header (Model/KeyPolicy: KeyArg.resolver, Hdr.jwk)
        kty, crv = {"HS256": ("oct", None), "RS256": ("RSA", None), "ES256": ("EC", "P-256"), "EdDSA": ("OKP", "Ed25519")}[c["alg"]]
        signer = 1 if c["signed_by"] == "right" else 2
        hdr = {"alg": c["alg"], "kid": None, "members": ["alg"] + (["jwk"] if c["jwk_header"] else [])}
        if c["jwk_header"]:
            hdr["jwk"] = kd(kty, crv, signer)
        answer = {"right": kd(kty, crv, 1), "none": None, "wrong": kd(kty, crv, 2 if signer == 1 else 1)}[c["returns"]]
        return {"op": "policy", "allowed": [c["alg"]] if c["api"] == "jwt" else None, "private_headers": [], "hdr": hdr, "arg": {"resolver": answer}}
    if c["op"] in ("kidtype", "jwe_allow", "embedded_jwk", "jws_keyops", "unknown_kty_set", "rp_kidless"):
        return None
    if c["op"] == "confusion":
        return {"op": "oct_import", "raw": c["raw"]}
    tok, header = make_token(c)
    crit = c.get("crit")
    hdr = {"alg": c["alg"], "kid": c["hkid"], "members": sorted(header)}
    if crit is not None:
        wf = isinstance(crit, list) and all(isinstance(x, str) for x in crit)
        hdr["crit"] = [x for x in crit if isinstance(x, str)] if isinstance(crit, list) else []
        hdr["critWellFormed"] = wf
    return {"op": "policy", "allowed": c["allowed"], "private_headers": c.get("private_headers") or [], "hdr": hdr, "arg": c["arg"]}


def model_canon_for(c, mo):
    """the model says WHICH key the signature is checked with; the token verifies iff that is its signer's key"""
    if c["op"] == "callable":
        signer = 1 if c["signed_by"] == "right" else 2
        return {"accepted": "ok" in mo and mo["ok"]["ident"] == signer}
    return mo


def project(c, out):
    if c["op"] == "callable":
        return {"accepted": out["accepted"]}
    if c["op"] == "jwe_keyops":
        return {side: ("ok" if out[side] == "ok" else "refused") for side in ("encrypt", "decrypt")}
    if c["op"] == "confusion":
        return {"accepted": out["accepted"]}
    if "ok" in out:
        return {"ok": {"alg": {"ES256": "ES/P-256", "ES384": "ES/P-384", "ES512": "ES/P-521", "ES256K": "ES/secp256k1"}.get(c["alg"], c["alg"]), "ident": out["ok"]["ident"]}}
    return out


# ---------------------------------------------------------------------------------------------- the statement, independently
FAMILY = {"HS": "oct", "RS": "RSA", "PS": "RSA", "Ed": "OKP"}


def expected(c):
    alg, arg = c["alg"], c["arg"]
    crit = c.get("crit")
    if crit is not None:
        priv = c.get("private_headers") or []
        hdr_members = set(make_token(c)[1])
        if not (isinstance(crit, list) and crit and all(isinstance(x, str) and x in priv and x in hdr_members for x in crit)):
            return "reject"
    if not isinstance(alg, str) or alg not in R.ALL_ALGS or alg == "none":
        return "reject"
    if c["allowed"] is not None and alg not in c["allowed"]:
        return "reject"
    if "single" in arg:
        k = arg["single"]
    else:
        ks = arg.get("keySet") if "keySet" in arg else arg["dictSet"]
        if c["hkid"] is None:
            if len(ks) != 1:
                return "reject"
            k = ks[0]
        else:
            m = [x for x in ks if x.get("kid") == c["hkid"]]
            if not m:
                return "reject"
            k = m[0]
    fam = "EC" if alg.startswith("ES") else FAMILY[alg[:2]]
    if k["kty"] != fam:
        return "reject"
    if fam == "EC" and R.EC_ALGS[alg][3] != k["crv"]:
        return "reject"
    if k.get("use") and k["use"] != "sig":
        return "reject"
    if k.get("keyOps") is not None and "verify" not in k["keyOps"]:
        return "reject"
    return ("accept", k["ident"])


def oracle(c, out):
    v = []
    if c["op"] == "confusion":
        if out["_loads"] and out["accepted"]:
            v.append((f"text the library loads as an asymmetric {out['_loads']} key is accepted as an HMAC secret ({c['label']}); forged HS256 token verifies: {out['_forged']}",
                      {"kind": "hmac-confusion", "form": c["label"].split("+")[1] if "+" in c["label"] else c["label"]}))
        return v
    if c["op"] == "kidtype":
        # the designated key is the member whose kid EQUALS the header's kid (same JSON type and text); the token is signed with the last member
        sk = c["kids"][c["signer"]]
        if c["hkid"] is None:
            ok_expected = len(c["kids"]) == 1
        else:
            ok_expected = sk is not None and sk == c["hkid"] and type(sk) is type(c["hkid"])
        if out["accepted"] and not ok_expected:
            v.append((f"header kid {c['hkid']!r} selected a key of the set with kids {c['kids']} ({c['form']}): no member has that kid", {"kind": "kid-type-confusion", "form": c["form"]}))
        return v
    if c["op"] == "jws_keyops":
        opts = c["opts"]
        for side in ("sign", "verify"):
            permitted = opts.get("use") in (None, "sig") and ("key_ops" not in opts or side in opts["key_ops"])
            done = out[side] == "ok"
            if done and not permitted:
                v.append((f"{side} performed with a {c['kind']} JWK restricted to {opts}", {"kind": "restriction-ignored", "family": "jws-" + c["kind"], "side": side}))
            if not done and permitted:
                v.append((f"{side} refused ({out[side]}) although the {c['kind']} JWK's restriction {opts} permits it", {"kind": "refused-within-policy", "alg": c["kind"], "form": "jws-" + side}))
        return v
    if c["op"] == "jwe_keyops":
        fam = "dir" if c["alg"] == "dir" else "ecdh" if c["alg"].startswith("ECDH") else "wrap"
        side_ops = {"dir": {"encrypt": {"encrypt"}, "decrypt": {"decrypt"}}, "wrap": {"encrypt": {"wrapKey"}, "decrypt": {"unwrapKey"}},
                    # key agreement: RFC 7517 names deriveKey / deriveBits; the library asks for wrapKey on the sender's side
                    "ecdh": {"encrypt": {"wrapKey", "deriveKey", "deriveBits"}, "decrypt": {"unwrapKey", "deriveKey", "deriveBits"}}}[fam]
        opts = c["opts"]
        for side in ("encrypt", "decrypt"):
            permitted = opts.get("use") in (None, "enc") and ("key_ops" not in opts or bool(set(opts["key_ops"]) & side_ops[side]))
            done = out[side] == "ok"
            if done and not permitted:
                v.append((f"{c['alg']}: {side}ion performed with a key restricted to {opts} (given through {c['how']})", {"kind": "restriction-ignored", "family": fam, "side": side}))
            if not done and permitted and not (fam == "ecdh" and "key_ops" in opts and "wrapKey" not in opts["key_ops"] and side == "encrypt"):
                v.append((f"{c['alg']}: {side}ion refused ({out[side]}) although the key's restriction {opts} permits it", {"kind": "refused-within-policy", "alg": c["alg"], "form": "jwe-" + side}))
        return v
    if c["op"] == "callable":
        want = c["returns"] == "right" and c["signed_by"] == "right"
        if out["accepted"] and not want:
            v.append((f"{c['api']}: token signed by the {c['signed_by']} key{' carrying its own jwk header' if c['jwk_header'] else ''} verified although the caller's key resolver returned "
                      f"{ {'none': 'no key', 'wrong': 'another key', 'right': 'the right key'}[c['returns']] }", {"kind": "resolver-bypassed", "alg": c["alg"]}))
        if not out["accepted"] and want:
            v.append((f"{c['api']}: token signed by the key the resolver returns was refused ({out.get('error')})", {"kind": "refused-within-policy", "alg": c["alg"], "form": "callable"}))
        return v
    if c["op"] == "rp_kidless":
        if out["accepted"] and c["nkeys"] > 1:
            v.append((f"[{c['fw']} client] parse_id_token: an ID token without kid verified against a provider JWKS of {c['nkeys']} keys (signed by key #{c['signer']}): several keys exist, none is designated",
                      {"kind": "wrong-key-selected", "alg": "HS256", "form": "rp-jwks"}))
        if not out["accepted"] and c["nkeys"] == 1:
            v.append((f"[{c['fw']} client] parse_id_token refused a kid-less ID token although the provider's JWKS holds exactly its key: {out['error']}", {"kind": "refused-within-policy", "alg": "HS256", "form": "rp-jwks"}))
        return v
    if c["op"] == "unknown_kty_set":
        if out["accepted"]:
            v.append((f"a token without kid verified against a key set of {c['n_unknown'] + 1} members (given as {c['form']}; {c['n_unknown']} of them of the unknown type {c['unknown']['kty']!r}): "
                      "several keys exist and none is designated", {"kind": "wrong-key-selected", "alg": "HS256", "form": "unknown-kty-set"}))
        return v
    if c["op"] == "embedded_jwk":
        if out["accepted"]:
            v.append((f"{c['api']}: token carrying its maker's key in a jwk header accepted although the caller designated the key {c['key']}", {"kind": "resolver-bypassed", "alg": c["api"]}))
        return v
    if c["op"] == "jwe_allow":
        listed = c["allowed"] != "default" and c["alg"] in c["allowed"] and c["enc"] in c["allowed"]
        if out["accepted"] and not listed:
            v.append((f"encrypted token with alg {c['alg']} / enc {c['enc']} accepted by an instance whose allow-list is {c['allowed']}", {"kind": "allow-list-jwe"}))
        if not out["accepted"] and listed:
            v.append((f"encrypted token with listed alg {c['alg']} / enc {c['enc']} refused ({out.get('error')})", {"kind": "allow-list-jwe-refused"}))
        return v
    if "raised" in out:
        return [(f"unexpected exception {out['raised']}", {"kind": "crash", "exc": out["raised"].split(":")[0]})]
    exp = expected(c)
    sig = {"alg": str(c["alg"]), "form": c["form"], "crit": c.get("crit") is not None}
    if "ok" in out:
        if exp == "reject":
            v.append(("token verified although the policy of the statement forbids it", dict(sig, kind="accepted-against-policy")))
        elif out["ok"]["ident"] != exp[1]:
            v.append((f"verified with key #{out['ok']['ident']}, the caller designated #{exp[1]}", dict(sig, kind="wrong-key-selected")))
    elif exp != "reject":
        v.append((f"token within the policy refused: {out}", dict(sig, kind="refused-within-policy")))
    return v


def classify(c, out):
    if c["op"] == "jwe_keyops":
        return f"jwe_keyops/{c['alg']}/{out['encrypt']}/{out['decrypt']}"
    if c["op"] == "jws_keyops":
        return f"jws_keyops/{c['kind']}/{out['sign']}/{out['verify']}"
    if c["op"] in ("kidtype", "jwe_allow", "callable", "embedded_jwk", "unknown_kty_set", "rp_kidless"):
        return c["op"] + "/" + ("accepted" if out["accepted"] else "refused")
    if c["op"] == "confusion":
        return "confusion/" + ("accepted" if out["accepted"] else "refused") + ("/loads" if out["_loads"] else "")
    return "policy/" + c["form"] + "/" + ("ok" if "ok" in out else out.get("error", "raised"))


def nontrivial(c, out):
    return c


def search(breaks, rng, known, match_known):
    # a generated-layer break (e.g. a prefix removed from POSSIBLE_UNSAFE_KEYS): try every asymmetric text form as an HMAC secret, end to end
    for c in confusion_cases() + cases(rng, "thorough"):
        o = impl(c)
        for what, sig in oracle(c, o):
            if match_known(known, sig) is None:
                return {"what": what, "sig": sig, "case": c, "impl": project(c, o)}
    return None
