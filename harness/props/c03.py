"""C03 — JWE authenticated encryption: round trip, interoperability, tamper rejection (inputs)."""
import base64
import copy
import json
import os
import random

import jweref as R

RULE = ("one case = one JWE operation on the real JsonWebEncryption: a round trip (authlib → authlib, authlib → independent RFC 7516 implementation, independent → authlib) for an "
        "(alg, enc, zip, serialization, recipients, AAD, plaintext) point of the full 14 × 6 × 2 matrix (ECDH-ES over P-256/384/521, X25519, X448), or one altered serialization "
        "(every component × bit flips at first / middle / last byte, truncation by one byte, emptied, lengthened, spliced from a second message; non-recipient and wrong-size "
        "keys) handed to the real deserializer. The structural part (AAD construction, CBC-HS tag, Concat KDF other-info, outcome classes) is compared with the Lean model fed "
        "with the primitive verdicts of the independent implementation")
ASSUMPTIONS = ["AES, GCM, AES-KW, RSA and ECDH are the `cryptography` primitives on both sides (trusted); interoperability is against harness/jweref.py, an implementation "
               "sharing no code with authlib", "ECDH-1PU drafts and C20P/XC20P are registered drafts outside RFC 7518 and are not exercised",
               "randomness (CEK, IV, ephemeral keys) is the library's own; the property is checked on what it produced"]

_K = {}


def keys():
    """fixed test keys (harness/jwe_test_keys.json) so that every witness replays"""
    if _K:
        return _K
    from cryptography.hazmat.primitives import serialization as S
    from authlib.jose import OctKey, RSAKey, ECKey, OKPKey
    pems = json.load(open(os.path.join(os.path.dirname(os.path.dirname(os.path.abspath(__file__))), "jwe_test_keys.json")))
    rng = random.Random(7)
    _K["oct"] = {n: bytes(rng.randrange(256) for _ in range(n)) for n in (16, 24, 32, 48, 64)}
    _K["oct2"] = {n: bytes(rng.randrange(256) for _ in range(n)) for n in (16, 24, 32, 48, 64)}
    for name, text in pems.items():
        k = S.load_pem_private_key(text.encode(), None)
        pub = k.public_key().public_bytes(S.Encoding.PEM, S.PublicFormat.SubjectPublicKeyInfo)
        cls = RSAKey if name.startswith("rsa") else (ECKey if name.startswith("P-") else OKPKey)
        _K[name] = {"ref_priv": k, "ref_pub": k.public_key(), "a_priv": cls.import_key(text.encode()), "a_pub": cls.import_key(pub)}
    return _K


ALGS = ["dir", "RSA1_5", "RSA-OAEP", "RSA-OAEP-256", "A128KW", "A192KW", "A256KW", "A128GCMKW", "A192GCMKW", "A256GCMKW", "ECDH-ES", "ECDH-ES+A128KW", "ECDH-ES+A192KW",
        "ECDH-ES+A256KW"]
ENCS = ["A128CBC-HS256", "A192CBC-HS384", "A256CBC-HS512", "A128GCM", "A192GCM", "A256GCM"]
CURVES = ["P-256", "P-384", "P-521", "X25519", "X448"]
PLAINTEXTS = [b"", b"x", b"hello", b"\x00\xff" * 40, b"A" * 1000, "héllo wörld".encode(), bytes(range(256))]


def key_for(alg, enc, crv, other=False):
    """(authlib encrypt key, authlib decrypt key, ref encrypt key, ref decrypt key)"""
    K = keys()
    if alg == "dir":
        k = (K["oct2"] if other else K["oct"])[R.cek_len(enc)]
        return k, k, k, k
    if alg.startswith("RSA"):
        e = K["rsa2" if other else "rsa"]
        return e["a_pub"], e["a_priv"], e["ref_pub"], e["ref_priv"]
    if alg.startswith("A"):
        k = (K["oct2"] if other else K["oct"])[int(alg[1:4]) // 8]
        return k, k, k, k
    e = K[crv + ("2" if other else "")]
    return e["a_pub"], e["a_priv"], e["ref_pub"], e["ref_priv"]


def b64d(s):
    return base64.urlsafe_b64decode(s + "=" * (-len(s) % 4))


def b64e(b):
    return base64.urlsafe_b64encode(b).rstrip(b"=").decode()


def mutations(seg_bytes):
    """altered versions of one component's octets"""
    out = []
    n = len(seg_bytes)
    if n:
        for pos in sorted({0, n // 2, n - 1}):
            for bit in (0, 7):
                b = bytearray(seg_bytes); b[pos] ^= 1 << bit
                out.append((f"flip@{pos}.{bit}", bytes(b)))
        out.append(("truncate-1", seg_bytes[:-1]))
        out.append(("drop-first", seg_bytes[1:]))
        out.append(("empty", b""))
        out.append(("half", seg_bytes[: n // 2]))
    out.append(("append-00", seg_bytes + b"\x00"))
    out.append(("append-tail", seg_bytes + seg_bytes[-1:] if n else b"\x01"))
    return out


def cases(rng, tier):
    out = []
    i = 0
    for alg in ALGS:
        for enc in ENCS:
            for zp in (None, "DEF"):
                crv = CURVES[i % len(CURVES)]
                pt = PLAINTEXTS[i % len(PLAINTEXTS)]
                i += 1
                out.append({"t": "rt_compact", "alg": alg, "enc": enc, "zip": zp, "crv": crv, "pt": b64e(pt)})
                if alg.startswith("ECDH"):
                    for c2 in CURVES:
                        if c2 != crv and (tier != "quick" or zp is None):
                            out.append({"t": "rt_compact", "alg": alg, "enc": enc, "zip": zp, "crv": c2, "pt": b64e(pt), "apu": b64e(b"Alice"), "apv": b64e(b"Bob")})
    # header members with text outside ASCII (kid, cty, a private member): "exactly the original plaintext and headers"
    for alg, enc in (("dir", "A128GCM"), ("A128KW", "A128CBC-HS256"), ("RSA-OAEP", "A256GCM"), ("ECDH-ES", "A128GCM"), ("A128GCMKW", "A256CBC-HS512")):
        for extra in ({"kid": "clé-✓"}, {"cty": "téxt"}, {"kid": "k1", "x-note": "ключ"}):
            out.append({"t": "rt_compact", "alg": alg, "enc": enc, "zip": None, "crv": "P-256", "pt": b64e(b"plaintext"), "hdr_extra": extra})
    # compression of large plaintexts (DEF has no size limit in RFC 7516)
    for alg, enc in (("dir", "A128GCM"), ("A128KW", "A128CBC-HS256")):
        out.append({"t": "rt_compact", "alg": alg, "enc": enc, "zip": "DEF", "crv": "P-256", "big": 300_000})
        out.append({"t": "rt_compact", "alg": alg, "enc": enc, "zip": None, "crv": "P-256", "big": 300_000})
    # tampering, compact: every alg family × every enc (quick: one zip setting)
    for alg in ALGS:
        for enc in ENCS:
            if tier == "quick" and alg in ("RSA-OAEP-256", "A192KW", "A192GCMKW", "ECDH-ES+A192KW", "A256KW", "ECDH-ES+A256KW") and enc not in ("A128CBC-HS256", "A256GCM"):
                continue
            out.append({"t": "tamper_compact", "alg": alg, "enc": enc, "zip": "DEF" if (len(alg) + len(enc)) % 2 else None, "crv": CURVES[len(out) % 5]})
    # a wrong-size symmetric key is refused on both sides (RFC 7518 fixes the key size of dir / A*KW / A*GCMKW)
    for alg in [a for a in ALGS if a == "dir" or (a.endswith("KW") and not a.startswith(("RSA", "ECDH")))]:
        for enc in ("A128GCM", "A256CBC-HS512"):
            out.append({"t": "wrongsize", "alg": alg, "enc": enc})
    # JSON serialization: 1..3 recipients, AAD present / absent, protected / unprotected placement
    for alg in ("A128KW", "A256KW", "RSA-OAEP", "RSA1_5", "A128GCMKW", "A256GCMKW", "ECDH-ES+A128KW", "ECDH-ES+A256KW", "dir", "ECDH-ES"):
        for enc in (ENCS if tier != "quick" else ["A128CBC-HS256", "A256CBC-HS512", "A128GCM", "A256GCM"]):
            for nrec in ((1,) if alg in ("dir", "ECDH-ES") else (1, 2, 3)):
                for aad in (None, b"extra authenticated data", b""):
                    if aad == b"" and (nrec != 1 or enc not in ("A128CBC-HS256", "A256GCM")):
                        continue          # present-but-empty AAD: one recipient, two enc families
                    out.append({"t": "json", "alg": alg, "enc": enc, "nrec": nrec, "aad": None if aad is None else b64e(aad), "crv": CURVES[len(out) % 5],
                                "enc_in": "protected" if len(out) % 3 else "unprotected", "zip": "DEF" if len(out) % 4 == 0 else None})
    # RSA1_5 with several recipients: a foreign encrypted key that the second recipient's key "decrypts" (implicit rejection)
    # to a key of the right length must not stop that recipient from finding its own entry
    for enc in ("A128GCM", "A128CBC-HS256", "A256GCM"):
        out.append({"t": "rsa15_fallback", "enc": enc})
    # one process, the same serialization decrypted twice, the application changing the header object it was handed in between:
    # "no serialization ever yields a different protected header"
    for alg in ("dir", "A128KW", "ECDH-ES"):
        for ser in ("compact", "json"):
            out.append({"t": "hdr_history", "alg": alg, "enc": "A128GCM", "ser": ser})
    # structural model of the compact deserializer, fed with the independent implementation's primitive verdicts
    for alg in ALGS:
        for enc in (ENCS if tier != "quick" else ["A128CBC-HS256", "A256GCM", "A192CBC-HS384"]):
            out.append({"t": "struct", "alg": alg, "enc": enc, "zip": "DEF" if len(out) % 2 else None, "crv": CURVES[len(out) % 5]})
    # structural model of the JSON deserializer (recipient choice, AAD), fed with the independent implementation's verdicts
    for alg in ("A128KW", "RSA1_5", "RSA-OAEP", "A128GCMKW", "ECDH-ES+A128KW", "A256KW"):
        for nrec in (1, 2, 3):
            for aad in (None, b64e(b"aad!")):
                out.append({"t": "jstruct", "alg": alg, "enc": "A128GCM" if nrec % 2 else "A128CBC-HS256", "nrec": nrec, "aad": aad, "crv": CURVES[len(out) % 5]})
    # structural vectors for the model: CBC-HS tag, Concat KDF, AAD
    for enc in ENCS[:3]:
        for aad_len in (0, 1, 13, 64, 300):
            for ct_len in (16, 32, 160):
                out.append({"t": "cbc_tag", "enc": enc, "key": b64e(bytes(rng.randrange(256) for _ in range(R.cek_len(enc) // 2))), "aad": b64e(bytes(rng.randrange(256) for _ in range(aad_len))),
                            "iv": b64e(bytes(rng.randrange(256) for _ in range(16))), "ct": b64e(bytes(rng.randrange(256) for _ in range(ct_len)))})
    for alg_id in ("A128GCM", "A256CBC-HS512", "ECDH-ES+A128KW", "ECDH-ES+A256KW"):
        for apu in (None, "", b64e(b"Alice"), b64e(bytes(40))):
            for apv in (None, b64e(b"Bob")):
                for bits in (128, 192, 256, 384, 512):
                    out.append({"t": "kdf", "alg_id": alg_id, "direct": not alg_id.startswith("ECDH"), "apu": apu, "apv": apv, "bits": bits,
                                "z": b64e(bytes(rng.randrange(256) for _ in range(32)))})
    return out


def _jwe():
    from authlib.jose import JsonWebEncryption
    return JsonWebEncryption()


def _try(f):
    try:
        return {"ok": f()}
    except Exception as e:
        return {"error": type(e).__name__}


def run_rt_compact(c):
    alg, enc = c["alg"], c["enc"]
    ae, ad, re_, rd = key_for(alg, enc, c["crv"])
    pt = (bytes(range(256)) * (c["big"] // 256 + 1))[:c["big"]] if c.get("big") else b64d(c["pt"])
    hdr = {"alg": alg, "enc": enc}
    if c["zip"]:
        hdr["zip"] = c["zip"]
    for k in ("apu", "apv"):
        if c.get(k):
            hdr[k] = c[k]
    hdr.update(c.get("hdr_extra") or {})
    jwe = _jwe()
    out = {}
    tok = jwe.serialize_compact(dict(hdr), pt, ae).decode()
    r = _try(lambda: jwe.deserialize_compact(tok, ad))
    out["a2a"] = "ok" if "ok" in r and r["ok"]["payload"] == pt and all(r["ok"]["header"].get(k) == v for k, v in hdr.items()) else r.get("error", "different")
    r = _try(lambda: R.decrypt_compact(tok, rd))
    out["a2r"] = "ok" if "ok" in r and r["ok"][1] == pt else r.get("error", "different")
    tok2 = R.encrypt_compact(dict(hdr), pt, re_)
    r = _try(lambda: jwe.deserialize_compact(tok2, ad))
    out["r2a"] = "ok" if "ok" in r and r["ok"]["payload"] == pt else r.get("error", "different")
    tok3 = R.encrypt_compact(dict(hdr), pt, re_, spaced=True)          # same header, other JSON layout
    r = _try(lambda: jwe.deserialize_compact(tok3, ad))
    out["r2a_spaced"] = "ok" if "ok" in r and r["ok"]["payload"] == pt else r.get("error", "different")
    out["segments"] = [len(x) > 0 for x in tok.split(".")]
    return out


def run_tamper_compact(c):
    alg, enc = c["alg"], c["enc"]
    ae, ad, _, rd = key_for(alg, enc, c["crv"])
    _, ad_other, _, _ = key_for(alg, enc, c["crv"], other=True)
    jwe = _jwe()
    hdr = {"alg": alg, "enc": enc}
    if c["zip"]:
        hdr["zip"] = c["zip"]
    pt, pt2 = b"the original plaintext, long enough to span blocks " * 2, b"another message entirely, also spanning several blocks"
    tok = jwe.serialize_compact(dict(hdr), pt, ae).decode()
    tok2 = jwe.serialize_compact(dict(hdr), pt2, ae).decode()
    orig = jwe.deserialize_compact(tok, ad)
    segs, segs2 = tok.split("."), tok2.split(".")
    names = ["protected", "encrypted_key", "iv", "ciphertext", "tag"]
    results = []
    def attempt(label, parts, key=ad):
        t = ".".join(parts)
        if t == tok:
            return
        r = _try(lambda: jwe.deserialize_compact(t, key))
        if "ok" in r:
            same = r["ok"]["payload"] == pt and r["ok"]["header"] == orig["header"]
            results.append([label, "same" if same else "DIFFERENT", b64e(r["ok"]["payload"])[:40]])
        else:
            results.append([label, "error", r["error"]])
    for i, name in enumerate(names):
        raw = b64d(segs[i])
        for mname, mb in mutations(raw):
            parts = list(segs); parts[i] = b64e(mb)
            attempt(f"{name}:{mname}", parts)
        parts = list(segs); parts[i] = segs2[i]
        attempt(f"{name}:splice", parts)
    # header rewritten consistently (valid JSON, one member changed)
    h = json.loads(b64d(segs[0]))
    for k, v in (("zip", "DEF" if "zip" not in h else None), ("enc", "A256GCM" if enc != "A256GCM" else "A128GCM"), ("kid", "other"), ("alg", "dir" if alg != "dir" else "A128KW")):
        h2 = dict(h)
        if v is None:
            h2.pop(k, None)
        else:
            h2[k] = v
        parts = list(segs); parts[0] = b64e(json.dumps(h2, separators=(",", ":")).encode())
        attempt(f"protected:set-{k}", parts)
    # the boundary between ciphertext and tag moved: the same octets, split differently between the two segments
    ct_raw, tag_raw = b64d(segs[3]), b64d(segs[4])
    for k in (1, 4, 8, len(tag_raw)):
        parts = list(segs); parts[3] = b64e(ct_raw + tag_raw[:k]); parts[4] = b64e(tag_raw[k:])
        attempt(f"tag:boundary-shift-{k}", parts)
    if len(ct_raw) > 2:
        parts = list(segs); parts[3] = b64e(ct_raw[:-2]); parts[4] = b64e(ct_raw[-2:] + tag_raw)
        attempt("tag:boundary-shift-back", parts)
    attempt("key:non-recipient", segs, ad_other)
    if alg == "dir" or alg.endswith("KW") and not alg.startswith(("RSA", "ECDH")):
        for n in (16, 24, 32, 48, 64):
            k = keys()["oct"][n]
            if k != ad:
                attempt(f"key:wrong-size-{n}", segs, k)
    return {"results": results, "key_modes": alg}


def _json_keys(c):
    ks = []
    for i in range(c["nrec"]):
        ae, ad, re_, rd = key_for(c["alg"], c["enc"], c["crv"], other=(i == 1))
        if i == 2:      # a third, distinct key
            K = keys()
            if c["alg"].startswith("A") and not c["alg"].startswith("A1") or c["alg"].startswith("A1"):
                pass
        ks.append((ae, ad, re_, rd))
    return ks


def third_key(alg, enc, crv):
    K = keys()
    if alg.startswith("RSA"):
        e = K["rsa3"]
        return e["a_pub"], e["a_priv"], e["ref_pub"], e["ref_priv"]
    if alg.startswith("ECDH"):
        e = K[crv + "3"]           # the library shares one ephemeral key between recipients: all on one curve
        return e["a_pub"], e["a_priv"], e["ref_pub"], e["ref_priv"]
    n = R.cek_len(enc) if alg == "dir" else int(alg[1:4]) // 8
    k = bytes((b + 1) % 256 for b in K["oct"][n])
    return k, k, k, k


def run_json(c):
    alg, enc, nrec = c["alg"], c["enc"], c["nrec"]
    jwe = _jwe()
    ks = [key_for(alg, enc, c["crv"]), key_for(alg, enc, c["crv"], other=True), third_key(alg, enc, c["crv"])][:nrec]
    outsider = third_key(alg, enc, c["crv"]) if nrec < 3 else None
    prot, unprot = {"alg": alg}, {}
    (prot if c["enc_in"] == "protected" else unprot)["enc"] = enc
    if c["zip"]:
        prot["zip"] = c["zip"]
    unprot["jku"] = "https://sender.example/keys"
    aad = None if c["aad"] is None else b64d(c["aad"])
    pt = b"json serialization payload \x00\x01\x02" * 3
    header_obj = {"protected": prot, "unprotected": unprot, "recipients": [{"header": {"kid": f"r{i}"}} for i in range(nrec)]}
    if aad is not None:
        header_obj["aad"] = aad
    out = {"dec": [], "ref_dec": [], "tamper": []}
    try:
        obj = jwe.serialize_json(copy.deepcopy(header_obj), pt, [k[0] for k in ks])
    except Exception as e:
        return {"serialize_error": type(e).__name__ + ": " + str(e)[:80]}
    obj = json.loads(json.dumps(obj))
    for i, k in enumerate(ks):
        r = _try(lambda: jwe.deserialize_json(copy.deepcopy(obj), k[1]))
        good = "ok" in r and r["ok"]["payload"] == pt and r["ok"]["header"].get("protected") == json.loads(b64d(obj["protected"])) if "protected" in obj else False
        out["dec"].append("ok" if good else r.get("error", "different"))
        # the recipient's key given together with a kid — its header's kid, and a kid no recipient header carries (the kid sits elsewhere or nowhere)
        for kid in (f"r{i}", "kid-not-in-any-recipient-header"):
            r2 = _try(lambda: jwe.deserialize_json(copy.deepcopy(obj), (kid, k[1])))
            out.setdefault("dec_kid", []).append("ok" if "ok" in r2 and r2["ok"]["payload"] == pt else r2.get("error", "different"))
        r = _try(lambda: R.decrypt_json(obj, k[3], i))
        out["ref_dec"].append("ok" if "ok" in r and r["ok"][1] == pt else r.get("error", "different"))
    # independent → authlib (key-wrapping algs; the reference puts the ephemeral key in the per-recipient header, which RFC 7516 allows)
    try:
        for spaced in (False, True):
            robj = R.encrypt_json(prot, {k: v for k, v in unprot.items()}, [({"kid": f"r{i}"}, k[2]) for i, k in enumerate(ks)], aad, pt, spaced=spaced)
            for i, k in enumerate(ks):
                r = _try(lambda: jwe.deserialize_json(copy.deepcopy(robj), k[1]))
                out.setdefault("r2a", []).append("ok" if "ok" in r and r["ok"]["payload"] == pt else r.get("error", "different"))
    except Exception as e:
        out["r2a"] = ["ref-error:" + type(e).__name__]
    # tampering as recipient 0 (and as the last recipient)
    def attempt(label, o, key):
        r = _try(lambda: jwe.deserialize_json(copy.deepcopy(o), key))
        if "ok" in r:
            same = r["ok"]["payload"] == pt
            out["tamper"].append([label, "same" if same else "DIFFERENT"])
        else:
            out["tamper"].append([label, "error", r["error"]])
    members = [m for m in ["protected", "iv", "ciphertext", "tag"] + (["aad"] if aad is not None else []) if m in obj]
    if aad is not None and "aad" not in obj:
        out["aad_member"] = "absent although AAD was given"
    for who in sorted({0, nrec - 1}):
        for m in members:
            raw = b64d(obj[m])
            for mname, mb in mutations(raw)[:8]:
                o = copy.deepcopy(obj); o[m] = b64e(mb)
                if o[m] != obj[m]:
                    attempt(f"r{who}/{m}:{mname}", o, ks[who][1])
        if alg not in ("dir", "ECDH-ES"):
            raw = b64d(obj["recipients"][who]["encrypted_key"])
            for mname, mb in mutations(raw)[:8]:
                o = copy.deepcopy(obj); o["recipients"][who]["encrypted_key"] = b64e(mb)
                # the other recipients' entries are dropped so that no fallback can succeed with an untouched key
                o["recipients"] = [o["recipients"][who]]
                attempt(f"r{who}/encrypted_key:{mname}", o, ks[who][1])
        # the same protected header re-serialized with another JSON layout: different octets, so the AAD differs
        hj = json.loads(b64d(obj["protected"]))
        o = copy.deepcopy(obj); o["protected"] = b64e(json.dumps(hj, sort_keys=True, indent=1).encode())
        if o["protected"] != obj["protected"]:
            attempt(f"r{who}/protected:reserialized", o, ks[who][1])
        if aad is not None and "aad" in obj:
            o = copy.deepcopy(obj); o["aad"] = obj["aad"] + "="          # same octets, other text
            attempt(f"r{who}/aad:padded-text", o, ks[who][1])
        if aad is not None:
            o = copy.deepcopy(obj); o.pop("aad", None)
            attempt(f"r{who}/aad:removed", o, ks[who][1])
        else:
            o = copy.deepcopy(obj); o["aad"] = b64e(b"injected")
            attempt(f"r{who}/aad:added", o, ks[who][1])
    if outsider is not None:
        attempt("key:non-recipient", obj, outsider[1])
    return out


def run_rsa15_fallback(c):
    """deterministic witness: search (seeded) for a foreign encrypted key on which recipient B's RSA1_5 decryption yields a CEK-sized value"""
    from cryptography.hazmat.primitives.asymmetric import padding
    K = keys()
    jwe = _jwe()
    a, b = K["rsa"], K["rsa2"]
    n = R.cek_len(c["enc"])
    rng = random.Random("rsa15-" + c["enc"])
    found = None
    for _ in range(20000):
        ek = bytes([0] + [rng.randrange(256) for _ in range(255)])
        try:
            m = b["ref_priv"].decrypt(ek, padding.PKCS1v15())
        except ValueError:
            continue
        if len(m) == n:
            found = ek; break
    if found is None:
        return {"witness": None}
    pt = b"two recipients, the second one reads"
    obj = jwe.serialize_json({"protected": {"alg": "RSA1_5", "enc": c["enc"]}}, pt, [a["a_pub"], b["a_pub"]])
    obj = json.loads(json.dumps(obj))
    obj["recipients"][0]["encrypted_key"] = b64e(found)
    r = _try(lambda: jwe.deserialize_json(copy.deepcopy(obj), b["a_priv"]))
    return {"witness": b64e(found)[:24], "second_recipient": "ok" if "ok" in r and r["ok"]["payload"] == pt else r.get("error", "different")}


def struct_tokens(c):
    """the valid token and a spread of altered ones (deterministic given the library's token)"""
    alg, enc = c["alg"], c["enc"]
    ae, ad, _, rd = key_for(alg, enc, c["crv"])
    hdr = {"alg": alg, "enc": enc}
    if c["zip"]:
        hdr["zip"] = c["zip"]
    tok = c.get("_tok")
    if tok is None:
        tok = _jwe().serialize_compact(dict(hdr), b"structural model payload " * 3, ae).decode()
        c["_tok"] = tok
    segs = tok.split(".")
    toks = [segs]
    for i in range(5):
        raw = b64d(segs[i])
        for mname, mb in mutations(raw)[::3]:
            parts = list(segs); parts[i] = b64e(mb); toks.append(parts)
        parts = list(segs); parts[i] = segs[i] + "="; toks.append(parts)           # padding kept
        parts = list(segs); parts[i] = segs[i][:-1] + ("A" if segs[i][-1:] != "A" else "B") if segs[i] else "A"; toks.append(parts)   # last character changed (may be the same octets)
        parts = list(segs); parts[i] = "!!" + segs[i]; toks.append(parts)
    toks.append(segs[:4]); toks.append(segs + ["AA"]); toks.append([""] * 5)
    return toks, ad, rd


def run_struct(c):
    toks, ad, rd = struct_tokens(c)
    jwe = _jwe()
    outs = []
    for parts in toks:
        r = _try(lambda: jwe.deserialize_compact(".".join(parts), ad))
        outs.append({"r": "ok", "payload": r["ok"]["payload"].hex()} if "ok" in r else {"r": "error"})
    return {"outs": outs}


def struct_model_lines(c):
    """one driver line per token: header fields, and the primitive verdicts for exactly the octets the received text decodes to"""
    import binascii
    toks, ad, rd = struct_tokens(c)
    lines = []
    def dec(sg):
        try:
            return base64.urlsafe_b64decode(sg.encode() + b"=" * (-len(sg) % 4))
        except (binascii.Error, ValueError):
            return None
    for parts in toks:
        line = {"op": "struct", "segs": parts, "header": None, "unwrap": [], "dec": [], "inflate": []}
        if len(parts) == 5:
            ps = parts[0]
            octs = [dec(x) for x in parts]
            if all(o is not None for o in octs):
                hb, ek, iv, ct, tag = octs
                try:
                    h = json.loads(hb.decode("utf-8"))
                    ok = isinstance(h, dict) and h.get("alg") in ALGS and h.get("enc") in ENCS and ("zip" not in h or h["zip"] == "DEF")
                except Exception:
                    ok, h = False, None
                if ok:
                    line["header"] = {"alg": h["alg"], "enc": h["enc"], "zip": h.get("zip")}
                    try:
                        cek = R.unwrap(h["alg"], h["enc"], rd, ek, h)
                    except Exception:
                        cek = None
                    line["unwrap"].append([ek.hex(), None if cek is None else cek.hex()])
                    if cek is not None:
                        aad = ps.encode("ascii")
                        try:
                            msg = R.content_decrypt(h["enc"], cek, iv, aad, ct, tag)
                        except Exception:
                            msg = None
                        line["dec"].append([cek.hex(), aad.hex(), iv.hex(), ct.hex(), tag.hex(), None if msg is None else msg.hex()])
                        if msg is not None and "zip" in h:
                            try:
                                inf = R.inflate(msg)
                            except Exception:
                                inf = None
                            line["inflate"].append([msg.hex(), None if inf is None else inf.hex()])
        lines.append(line)
    return lines


def jstruct_variants(c):
    """(object, decrypting key index) pairs: the library's message and altered versions, read by each recipient"""
    alg, enc, nrec = c["alg"], c["enc"], c["nrec"]
    ks = [key_for(alg, enc, c["crv"]), key_for(alg, enc, c["crv"], other=True), third_key(alg, enc, c["crv"])][:nrec]
    obj = c.get("_obj")
    if obj is None:
        header_obj = {"protected": {"alg": alg, "enc": enc}, "recipients": [{"header": {"kid": f"r{i}"}} for i in range(nrec)]}
        if c["aad"] is not None:
            header_obj["aad"] = b64d(c["aad"])
        obj = json.loads(json.dumps(_jwe().serialize_json(header_obj, b"json structural payload", [k[0] for k in ks])))
        c["_obj"] = obj
    variants = []
    for who in range(nrec):
        variants.append((copy.deepcopy(obj), who, None))
        o = copy.deepcopy(obj); o["recipients"].reverse(); variants.append((o, who, None))
        o = copy.deepcopy(obj); o["recipients"][0]["encrypted_key"] = b64e(b"\x01" * 24); variants.append((o, who, None))
        o = copy.deepcopy(obj); o["recipients"] = o["recipients"][who:who + 1]; variants.append((o, who, None))
        o = copy.deepcopy(obj); o["recipients"] = [r for i, r in enumerate(o["recipients"]) if i != who]
        if o["recipients"]:
            variants.append((o, who, None))
        o = copy.deepcopy(obj); o["protected"] = o["protected"][:-1] + ("A" if o["protected"][-1] != "A" else "B"); variants.append((o, who, None))
        o = copy.deepcopy(obj)
        if "aad" in o: del o["aad"]
        else: o["aad"] = b64e(b"x")
        variants.append((o, who, None))
        variants.append((copy.deepcopy(obj), who, f"r{who}"))            # key carries the kid of its own entry
        variants.append((copy.deepcopy(obj), who, f"r{(who + 1) % nrec}"))   # key carries the kid of another entry
    return variants, ks


def run_jstruct(c):
    variants, ks = jstruct_variants(c)
    jwe = _jwe()
    outs = []
    for o, who, kid in variants:
        key = ks[who][1] if kid is None else (kid, ks[who][1])
        r = _try(lambda: jwe.deserialize_json(copy.deepcopy(o), key))
        outs.append({"r": "ok", "payload": r["ok"]["payload"].hex()} if "ok" in r else {"r": "error"})
    return {"outs": outs}


def jstruct_model_lines(c):
    variants, ks = jstruct_variants(c)
    lines = []
    for o, who, kid in variants:
        ps = o.get("protected", "")
        try:
            protected = json.loads(b64d(ps)) if ps else {}
            assert isinstance(protected, dict)
        except Exception:
            protected = None
        line = {"op": "json_struct", "protected": ps, "aad": o.get("aad"), "recipients": [], "unwrap": [], "dec": [], "key_kid": kid}
        if protected is None:
            lines.append(dict(line, recipients=[]))        # the header does not parse: no recipient can be served
            continue
        aad = ps.encode("ascii") + ((b"." + o["aad"].encode()) if "aad" in o else b"")
        iv, ct, tag = b64d(o["iv"]), b64d(o["ciphertext"]), b64d(o["tag"])
        seen = set()
        for rec in o["recipients"]:
            ek = b64d(rec["encrypted_key"])
            m = dict(protected, **(o.get("unprotected") or {})); m.update(rec.get("header") or {})
            line["recipients"].append({"kid": (rec.get("header") or {}).get("kid"), "ek": ek.hex()})
            try:
                cek = R.unwrap(m["alg"], m["enc"], ks[who][3], ek, m)
            except Exception:
                cek = None
            line["unwrap"].append([ek.hex(), None if cek is None else cek.hex()])
            if cek is not None and cek not in seen:
                seen.add(cek)
                try:
                    pt = R.content_decrypt(m["enc"], cek, iv, aad, ct, tag)
                except Exception:
                    pt = None
                line["dec"].append([cek.hex(), aad.hex(), None if pt is None else pt.hex()])
        lines.append(line)
    return lines


def run_cbc_tag(c):
    from authlib.jose import JsonWebEncryption
    enc = JsonWebEncryption.ENC_REGISTRY[c["enc"]]
    return {"tag": enc._hmac(b64d(c["ct"]), b64d(c["aad"]), b64d(c["iv"]), b64d(c["key"])).hex()}


def run_kdf(c):
    from authlib.jose import JsonWebEncryption
    alg = JsonWebEncryption.ALG_REGISTRY["ECDH-ES" if c["direct"] else c["alg_id"]]
    headers = {"enc": c["alg_id"], "alg": c["alg_id"]}
    for k in ("apu", "apv"):
        if c[k] is not None:
            headers[k] = c[k]
    info = alg.compute_fixed_info(headers, c["bits"])
    return {"info": info.hex(), "key": alg.compute_derived_key(b64d(c["z"]), info, c["bits"]).hex()}


def run_wrongsize(c):
    jwe = _jwe()
    alg, enc = c["alg"], c["enc"]
    need = R.cek_len(enc) if alg == "dir" else int(alg[1:4]) // 8
    res = []
    for n in (16, 24, 32, 48, 64):
        if n == need:
            continue
        k = keys()["oct"][n]
        r = _try(lambda: jwe.serialize_compact({"alg": alg, "enc": enc}, b"plaintext", k))
        if "error" in r:
            res.append([n, "refused"])
            continue
        r2 = _try(lambda: jwe.deserialize_compact(r["ok"], k))
        res.append([n, "encrypted+decrypted" if "ok" in r2 else "encrypted"])
    # the same for keys given as text: the key is the octets of the text, white space included
    for label, k in (("text+newline", "A" * need + "\n"), ("space+text", " " + "A" * need), ("text+crlf", "A" * need + "\r\n"), ("tab+text+space", "\t" + "A" * need + " ")):
        r = _try(lambda: jwe.serialize_compact({"alg": alg, "enc": enc}, b"plaintext", k))
        if "error" in r:
            res.append([f"{len(k)} ({label})", "refused"])
            continue
        r2 = _try(lambda: jwe.deserialize_compact(r["ok"], k))
        res.append([f"{len(k)} ({label})", "encrypted+decrypted" if "ok" in r2 else "encrypted"])
    return {"need": need, "sizes": res}


def run_hdr_history(c):
    jwe = _jwe()
    ke, kd = key_for(c["alg"], c["enc"], "P-256")[:2]
    prot = {"alg": c["alg"], "enc": c["enc"], "kid": "k-1"}
    pt = b"history payload"
    def once(ser):
        if c["ser"] == "compact":
            r = jwe.deserialize_compact(ser, kd)
            return r, r["header"]
        r = jwe.deserialize_json(copy.deepcopy(ser), kd)
        return r, r["header"]["protected"]
    try:
        ser = jwe.serialize_compact(dict(prot), pt, ke) if c["ser"] == "compact" else json.loads(json.dumps(jwe.serialize_json({"protected": dict(prot)}, pt, ke)))
        r1, h1 = once(ser)
        first = {k: h1.get(k) for k in ("alg", "enc", "kid")}
        h1["alg"] = "none"; h1["kid"] = "rewritten"; h1["injected"] = True           # e.g. the header reused to build a reply
        r2, h2 = once(ser)
        return {"first": first, "second": {k: h2.get(k) for k in ("alg", "enc", "kid", "injected")}, "payload_ok": r1["payload"] == pt and r2["payload"] == pt}
    except Exception as e:
        return {"raised": type(e).__name__ + ": " + str(e)[:80]}


def impl(c):
    return {"wrongsize": run_wrongsize, "rt_compact": run_rt_compact, "tamper_compact": run_tamper_compact, "json": run_json, "cbc_tag": run_cbc_tag, "kdf": run_kdf, "rsa15_fallback": run_rsa15_fallback, "hdr_history": run_hdr_history, "struct": run_struct, "jstruct": run_jstruct}[c["t"]](c)


def model_line(c):
    if c["t"] == "struct":
        return {"op": "multi", "lines": struct_model_lines(c)}
    if c["t"] == "jstruct":
        return {"op": "multi", "lines": jstruct_model_lines(c)}
    if c["t"] == "cbc_tag":
        return {"op": "cbc_tag", "enc": c["enc"], "key": b64d(c["key"]).hex(), "aad": b64d(c["aad"]).hex(), "iv": b64d(c["iv"]).hex(), "ct": b64d(c["ct"]).hex()}
    if c["t"] == "kdf":
        return {"op": "kdf", "alg_id": c["alg_id"], "apu": None if c["apu"] is None else b64d(c["apu"]).hex(), "apv": None if c["apv"] is None else b64d(c["apv"]).hex(),
                "bits": c["bits"], "z": b64d(c["z"]).hex()}
    return None


def project(c, out):
    return out


def oracle(c, out):
    v = []
    def bad(what, **sig):
        v.append((what, dict(sig, alg=c.get("alg"), enc=c.get("enc"))))
    t = c["t"]
    if t == "rt_compact":
        for d, name in (("a2a", "authlib → authlib"), ("a2r", "authlib → independent implementation"), ("r2a", "independent implementation → authlib"),
                        ("r2a_spaced", "independent implementation (header JSON laid out with spaces) → authlib")):
            if out[d] != "ok":
                bad(f"round trip {name} failed for {c['alg']} / {c['enc']} / zip={c['zip']} / {c['crv']}: {out[d]}", kind="roundtrip", direction=d)
    elif t == "wrongsize":
        for n, verdict in out["sizes"]:
            if verdict != "refused":
                bad(f"{c['alg']} / {c['enc']} with a {n}-octet key where RFC 7518 requires {out['need']} octets: {verdict} instead of an error", kind="wrong-size-key-accepted")
                break
    elif t == "tamper_compact":
        for label, verdict, *rest in out["results"]:
            comp = label.split(":")[0]
            if verdict == "DIFFERENT":
                bad(f"{c['alg']} / {c['enc']}: altered serialization ({label}) decrypted to a different plaintext or header", kind="tamper-different", component=comp)
            elif verdict == "same":
                direct = c["alg"] in ("dir", "ECDH-ES")
                benign = (comp == "encrypted_key" and direct)            # the encrypted key is unused in the direct modes (not in the property's scope)
                if not benign:
                    bad(f"{c['alg']} / {c['enc']}: altered serialization ({label}) was accepted", kind="tamper-accepted", component=comp, how=label.split(":")[1].split("@")[0])
    elif t == "hdr_history":
        want = {"alg": c["alg"], "enc": c["enc"], "kid": "k-1"}
        if "raised" in out or out["first"] != want or out["second"] != dict(want, injected=None) or not out["payload_ok"]:
            bad(f"{c['alg']} {c['ser']}: the same serialization decrypted twice in one process (the application changed the header object it got the first time): "
                f"{out}, the protected header is {want} both times", kind="roundtrip", direction="header-history")
    elif t == "rsa15_fallback":
        if out.get("witness") and out["second_recipient"] != "ok":
            bad(f"RSA1_5 / {c['enc']}, two recipients: the second recipient could not decrypt ({out['second_recipient']}) because the first entry's encrypted key "
                "decrypts under its key to a random CEK-sized value (implicit rejection) and was taken for a match", kind="roundtrip", direction="json-multi-recipient-fallback")
    elif t == "json":
        if "serialize_error" in out:
            bad(f"serialize_json failed: {out['serialize_error']}", kind="roundtrip", direction="serialize")
            return v
        for i, r in enumerate(out["dec"]):
            if r != "ok":
                bad(f"JSON serialization, {c['alg']} / {c['enc']}, recipient {i} of {c['nrec']}: decryption failed ({r})", kind="roundtrip", direction="json-a2a")
        for i, r in enumerate(out.get("dec_kid", [])):
            if r != "ok":
                bad(f"JSON serialization, {c['alg']} / {c['enc']}, {c['nrec']} recipient(s): recipient {i // 2} cannot decrypt when its key is given with "
                    f"{'its header kid' if i % 2 == 0 else 'a kid that no per-recipient header carries'} ({r})", kind="roundtrip", direction="json-kid")
        for i, r in enumerate(out["ref_dec"]):
            if r != "ok":
                bad(f"JSON serialization, {c['alg']} / {c['enc']}, recipient {i}: the independent implementation cannot decrypt authlib's output ({r})", kind="roundtrip", direction="json-a2r")
        for i, r in enumerate(out.get("r2a", [])):
            if r != "ok" and not r.startswith("ref-error"):
                bad(f"JSON serialization, {c['alg']} / {c['enc']}, recipient {i}: authlib cannot decrypt the independent implementation's output ({r})", kind="roundtrip", direction="json-r2a")
        for label, verdict, *rest in out["tamper"]:
            comp = label.split("/")[1].split(":")[0] if "/" in label else label.split(":")[0]
            if verdict == "DIFFERENT":
                bad(f"JSON {c['alg']} / {c['enc']}: altered serialization ({label}) decrypted to a different plaintext", kind="tamper-different", component=comp)
            elif verdict == "same":
                bad(f"JSON {c['alg']} / {c['enc']}: altered serialization ({label}) was accepted", kind="tamper-accepted", component=comp, how=label.split(":")[1].split("@")[0])
    return v


def classify(c, out):
    return f"{c['t']}/{c.get('alg', c.get('enc', c.get('alg_id')))}"


def nontrivial(c, out):
    return c


def search(breaks, rng, known, match_known):
    for c in cases(rng, "thorough"):
        o = impl(c)
        for what, sig in oracle(c, o):
            if match_known(known, sig) is None:
                return {"what": what, "sig": sig, "case": c, "impl": o}
    return None
