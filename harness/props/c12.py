"""C12 — OAuth 1.0 provider: credential exchange order, single use and replay defence (histories)."""
import json
import re
from urllib.parse import urlparse, parse_qsl

import mem1
import memserver as ms
from memserver import CLOCK, User
from authlib.oauth1.rfc5849.client_auth import ClientAuth
import authlib.oauth1.rfc5849.client_auth as ca_mod
from authlib.oauth1.rfc5849.errors import OAuth1Error

RULE = ("one case = one history of initiate / approve-deny / exchange / access / advance-clock requests against the real OAuth 1 provider core with in-memory "
        "hooks (2 clients, 2 users; HMAC-SHA1 and PLAINTEXT configured or not), requests signed by the library's own client with right, wrong or absent secrets; "
        "references are mostly the credentials really handed out; every step output and the final store are compared with the Lean state machine; "
        "plus the Flask and Django integrations built with every subset of the three signature methods configured, each asked for a temporary credential and for a "
        "resource with each method (oracle only)")
ASSUMPTIONS = ["signatures are abstracted in the model to 'which (client secret, token secret) pair the signer used' (C11 owns the signature itself)",
               "reference hooks = flask_oauth1.cache semantics (temporary credential by oauth_token only; nonce key nonce-timestamp-client[-token], set on check)"]

SECRETS = {"ca": "secret-a", "cb": "secret-b", "cw": " secret-w\t"}      # (cw: a stored secret with white space at its edges is a different secret from its stripped form)
NOW0 = 1_000_000


def model_canon(mo):
    if "store" in mo:
        st = mo["store"]
        mo = dict(mo, store={"temps": sorted(st["temps"]), "creds": sorted(st["creds"])})
    return mo


class World1:
    def __init__(self, methods):
        CLOCK.now = NOW0
        self.store, self.srv, self.rp = mem1.build(methods)
        self.cfg = {"clients": [{"id": k, "secret": v} for k, v in SECRETS.items()], "methods": list(methods), "now": NOW0}

    def signed_headers(self, op, http_method, uri, token=None, verifier=None, callback=None):
        cs, ts = op["signed_with"] if op.get("signed_with") else ("x", "x")
        meth = op.get("method") or "HMAC-SHA1"
        ca_mod.generate_nonce = lambda: op.get("nonce") if op.get("nonce") is not None else "n"
        ca_mod.generate_timestamp = lambda: op.get("timestamp") if op.get("timestamp") is not None else "0"
        auth = ClientAuth(op.get("client") or "nobody", client_secret=cs, token=token, token_secret=ts, redirect_uri=callback, verifier=verifier,
                          signature_method=meth if meth in ("HMAC-SHA1", "PLAINTEXT") else "HMAC-SHA1")
        _, headers, _ = auth.prepare(http_method, uri, {}, "")
        items = re.findall(r'(\w+)="([^"]*)"', headers["Authorization"])
        dropped = set()
        if not op.get("client"): dropped.add("oauth_consumer_key")
        if op.get("timestamp") is None: dropped.add("oauth_timestamp")
        if op.get("nonce") is None: dropped.add("oauth_nonce")
        if op.get("signed_with") is None: dropped.add("oauth_signature")
        if op.get("method") is None: dropped.add("oauth_signature_method")
        items = [(k_, (op["method"] if k_ == "oauth_signature_method" and op.get("method") not in (None, "HMAC-SHA1", "PLAINTEXT") else v_))
                 for k_, v_ in items if k_ not in dropped]
        h = "OAuth " + ", ".join(f'{k_}="{v_}"' for k_, v_ in items)
        return {"Authorization": h}

    def out(self, status, error=None, token=None, secret=None, verifier=None):
        return {"status": status, "error": error, "token": token, "secret": secret, "verifier": verifier}

    def step(self, op):
        """one request; with op["fault"] = k the k-th storage callback of the request raises (C19)"""
        st = self.store
        st.trace, st.events = [], []
        st.fail_at = op.get("fault")
        st.fault_type = op.get("fault_type")
        try:
            o = self._step(op)
        finally:
            st.fail_at = None
        if op.get("fault") is not None:
            if str(o.get("raised", "")).startswith("Fault"):
                return {"fault": True, "done": list(st.events), "store": self.snapshot()}
            if len(st.trace) <= op["fault"] and "raised" not in o:
                o = dict(o, nofault=True)
            else:
                o = dict(o, swallowed=True, done=list(st.events), store=self.snapshot())
        return o

    def _step(self, op):
        k = op["op"]
        try:
            if k == "advance":
                CLOCK.now += op["dt"]; return self.out(200)
            if k == "authorize":
                uri = "https://sp.example/authorize" + (f"?oauth_token={op['token']}" if op.get("token") is not None else "")
                try:
                    r = self.srv.create_authorization_response(("GET", uri, None, {}), User(op["user"]) if op.get("user") is not None else None)
                except OAuth1Error as e:
                    return self.out(e.status_code, e.error)
                q = dict(parse_qsl(urlparse(r.headers["Location"]).query))
                if "error" in q:
                    return self.out(302, q["error"])
                return self.out(302, None, q.get("oauth_token"), None, q.get("oauth_verifier"))
            if k == "initiate":
                h = self.signed_headers(op, "POST", "https://sp.example/initiate", callback=op.get("callback"))
                r = self.srv.create_temporary_credentials_response(("POST", "https://sp.example/initiate", None, h))
            elif k == "exchange":
                h = self.signed_headers(op, "POST", "https://sp.example/token", token=op.get("token"), verifier=op.get("verifier"))
                r = self.srv.create_token_response(("POST", "https://sp.example/token", None, h))
            elif k == "access":
                h = self.signed_headers(op, "GET", "https://sp.example/resource", token=op.get("token"))
                try:
                    req = self.rp.validate_request("GET", "https://sp.example/resource", None, h)
                    return self.out(200, None, req.credential.get_oauth_token())
                except OAuth1Error as e:
                    return self.out(e.status_code, e.error)
            if r.status != 200:
                return self.out(r.status, dict(r.payload).get("error"))
            p = dict(r.payload)
            return self.out(200, None, p["oauth_token"], p["oauth_token_secret"])
        except Exception as e:
            return {"raised": type(e).__name__ + ": " + str(e)[:80]}

    def snapshot(self):
        return self.store.snapshot()


class World1FlaskPrefix:
    """marker: the Flask world with a non-default key_prefix for the cache hooks"""


class World1Flask(World1):
    KEY_PREFIX = "temporary_credential:"

    """the same histories against the Flask integration: flask_oauth1.AuthorizationServer + ResourceProtector with the cache hooks it ships
    (register_nonce_hooks, register_temporary_credential_hooks, create_exists_nonce_func) over a dict cache; credentials are numbered as in mem1"""
    def __init__(self, methods):
        import flask
        from flask import Flask, jsonify
        from authlib.integrations.flask_oauth1 import AuthorizationServer, ResourceProtector, current_credential
        from authlib.integrations.flask_oauth1.cache import register_nonce_hooks, register_temporary_credential_hooks, create_exists_nonce_func
        import authlib.integrations.flask_oauth1.authorization_server as fas
        CLOCK.now = NOW0
        self.store = st = mem1.Store1()
        st.clients["ca"] = mem1.Client1("ca", SECRETS["ca"], "https://a/cb", None)
        st.clients["cb"] = mem1.Client1("cb", SECRETS["cb"], "https://b/cb", None)
        st.clients["cw"] = mem1.Client1("cw", SECRETS["cw"], "https://w/cb", None)
        self.cfg = {"clients": [{"id": k, "secret": v} for k, v in SECRETS.items()], "methods": list(methods), "now": NOW0}
        self.cache = cache = TTLCache()
        app = Flask("c12-flask-world")
        app.config["PROPAGATE_EXCEPTIONS"] = True
        app.config["OAUTH1_SUPPORTED_SIGNATURE_METHODS"] = list(methods)

        def gen():
            a, b = ("tmp", "tsec") if flask.request.path == "/initiate" else ("tok", "sec")
            return {"oauth_token": st.nxt(a), "oauth_token_secret": st.nxt(b)}
        server = AuthorizationServer(app, query_client=lambda cid: st.clients.get(cid), token_generator=gen)
        fas.generate_token = lambda n=36: st.nxt("ver")
        if self.KEY_PREFIX == "temporary_credential:":
            register_nonce_hooks(server, cache)
            register_temporary_credential_hooks(server, cache)
        else:
            register_nonce_hooks(server, cache, key_prefix="n:")
            register_temporary_credential_hooks(server, cache, key_prefix=self.KEY_PREFIX)
        server.register_hook("create_token_credential", lambda token, temp: st.creds.setdefault(
            token["oauth_token"], mem1.TokenCred(token["oauth_token"], token["oauth_token_secret"], temp.get_client_id(), temp.get_user_id())))
        rp = ResourceProtector(app, query_client=lambda cid: st.clients.get(cid), query_token=lambda cid, t: (st.creds.get(t) if st.creds.get(t) is not None and st.creds[t].client_id == cid else None),
                               exists_nonce=create_exists_nonce_func(cache))
        self._user = [None]

        @app.route("/initiate", methods=["POST"])
        def initiate():
            return server.create_temporary_credentials_response()

        @app.route("/authorize", methods=["GET"])
        def authorize():
            try:
                return server.create_authorization_response(grant_user=self._user[0])
            except OAuth1Error as e:
                return jsonify(error=e.error), e.status_code

        @app.route("/token", methods=["POST"])
        def token():
            return server.create_token_response()

        @app.route("/resource", methods=["GET"])
        @rp()
        def resource():
            return jsonify(token=current_credential.get_oauth_token())
        self.app = app

    def _step(self, op):
        k = op["op"]
        try:
            if k == "advance":
                CLOCK.now += op["dt"]; return self.out(200)
            cl = self.app.test_client()
            if k == "authorize":
                self._user[0] = User(op["user"]) if op.get("user") is not None else None
                r = cl.get("/authorize" + (f"?oauth_token={op['token']}" if op.get("token") is not None else ""), base_url="https://sp.example")
                if r.status_code != 302:
                    return self.out(r.status_code, (r.get_json(silent=True) or {}).get("error"))
                q = dict(parse_qsl(urlparse(r.headers["Location"]).query))
                if "error" in q:
                    return self.out(302, q["error"])
                return self.out(302, None, q.get("oauth_token"), None, q.get("oauth_verifier"))
            if k == "initiate":
                h = self.signed_headers(op, "POST", "https://sp.example/initiate", callback=op.get("callback"))
                r = cl.post("/initiate", headers=h, base_url="https://sp.example")
            elif k == "exchange":
                h = self.signed_headers(op, "POST", "https://sp.example/token", token=op.get("token"), verifier=op.get("verifier"))
                r = cl.post("/token", headers=h, base_url="https://sp.example")
            else:
                h = self.signed_headers(op, "GET", "https://sp.example/resource", token=op.get("token"))
                r = cl.get("/resource", headers=h, base_url="https://sp.example")
                if r.status_code == 200:
                    return self.out(200, None, r.get_json()["token"])
                return self.out(r.status_code, (r.get_json(silent=True) or {}).get("error"))
            body = dict(parse_qsl(r.get_data(as_text=True)))
            if r.status_code != 200:
                return self.out(r.status_code, body.get("error"))
            return self.out(200, None, body["oauth_token"], body["oauth_token_secret"])
        except Exception as e:
            return {"raised": type(e).__name__ + ": " + str(e)[:80]}

    def snapshot(self):
        temps = []
        for k, (v, _) in self.cache.d.items():
            if k.startswith(self.KEY_PREFIX):
                temps.append([k[len(self.KEY_PREFIX):], v.get("client_id"), v.get("oauth_verifier"), v.get("user_id")])
        return {"temps": sorted(temps), "creds": sorted([k, c.client_id, c.user_id] for k, c in self.store.creds.items())}


class World1FlaskCustom(World1Flask):
    """the cache hooks registered with key prefixes of the integrator's choosing"""
    KEY_PREFIX = "tc/"


class World1Django(World1Flask):
    """… and against the Django integration: django_oauth1.CacheAuthorizationServer + ResourceProtector on Django's cache, fake model classes"""
    def __init__(self, methods):
        from django.conf import settings
        if not settings.configured:
            settings.configure(DEBUG=False, SECRET_KEY="x", ALLOWED_HOSTS=["*"])
        import django
        django.setup()
        from django.core.cache import cache as dcache
        from authlib.integrations.django_oauth1 import CacheAuthorizationServer, ResourceProtector
        import authlib.integrations.django_oauth1.authorization_server as das
        CLOCK.now = NOW0
        dcache.clear()
        self.dcache = dcache
        self.store = st = mem1.Store1()
        st.clients["ca"] = mem1.Client1("ca", SECRETS["ca"], "https://a/cb", None)
        st.clients["cb"] = mem1.Client1("cb", SECRETS["cb"], "https://b/cb", None)
        st.clients["cw"] = mem1.Client1("cw", SECRETS["cw"], "https://w/cb", None)
        self.cfg = {"clients": [{"id": k, "secret": v} for k, v in SECRETS.items()], "methods": list(methods), "now": NOW0}
        das.generate_token = lambda n=36: st.nxt("ver")
        self._phase = ["initiate"]

        def model(find, ctor=None):
            class DoesNotExist(Exception):
                pass

            class Objects:
                @staticmethod
                def get(**kw):
                    r = find(kw)
                    if r is None:
                        raise DoesNotExist()
                    return r
            ns = {"DoesNotExist": DoesNotExist, "objects": Objects}
            return type("M", (), ns)
        CM = model(lambda kw: st.clients.get(kw.get("client_id")))

        class TokenRow(mem1.TokenCred):
            def __init__(self, oauth_token, oauth_token_secret, user_id, client_id):
                super().__init__(oauth_token, oauth_token_secret, client_id, user_id)
            def save(self):
                st.creds[self.token] = self
        TokenRow.DoesNotExist = type("DoesNotExist", (Exception,), {})
        class _Objects:
            @staticmethod
            def get(client_id=None, oauth_token=None):
                c = st.creds.get(oauth_token)
                if c is None or c.client_id != client_id:
                    raise TokenRow.DoesNotExist()
                return c
        TokenRow.objects = _Objects

        def gen():
            a, b = ("tmp", "tsec") if self._phase[0] == "initiate" else ("tok", "sec")
            return {"oauth_token": st.nxt(a), "oauth_token_secret": st.nxt(b)}
        settings.AUTHLIB_OAUTH1_PROVIDER = {"signature_methods": list(methods)}
        try:
            self.srv = CacheAuthorizationServer(CM, TokenRow, token_generator=gen)
            self.rp = ResourceProtector(CM, TokenRow)
        finally:
            del settings.AUTHLIB_OAUTH1_PROVIDER

    def _step(self, op):
        from django.http import JsonResponse
        from django.test import RequestFactory
        k = op["op"]
        rf = RequestFactory()
        def hdrs(h):
            return {"HTTP_" + n.upper().replace("-", "_"): v for n, v in h.items()}
        try:
            if k == "advance":
                CLOCK.now += op["dt"]; return self.out(200)
            if k == "authorize":
                req = rf.get("/authorize" + (f"?oauth_token={op['token']}" if op.get("token") is not None else ""), secure=True, HTTP_HOST="sp.example")
                try:
                    r = self.srv.create_authorization_response(req, User(op["user"]) if op.get("user") is not None else None)
                except OAuth1Error as e:
                    return self.out(e.status_code, e.error)
                if r.status_code != 302:
                    return self.out(r.status_code, dict(parse_qsl(r.content.decode())).get("error"))
                q = dict(parse_qsl(urlparse(r["Location"]).query))
                if "error" in q:
                    return self.out(302, q["error"])
                return self.out(302, None, q.get("oauth_token"), None, q.get("oauth_verifier"))
            if k == "initiate":
                self._phase[0] = "initiate"
                h = self.signed_headers(op, "POST", "https://sp.example/initiate", callback=op.get("callback"))
                r = self.srv.create_temporary_credentials_response(rf.post("/initiate", secure=True, HTTP_HOST="sp.example", **hdrs(h)))
            elif k == "exchange":
                self._phase[0] = "token"
                h = self.signed_headers(op, "POST", "https://sp.example/token", token=op.get("token"), verifier=op.get("verifier"))
                r = self.srv.create_token_response(rf.post("/token", secure=True, HTTP_HOST="sp.example", **hdrs(h)))
            else:
                h = self.signed_headers(op, "GET", "https://sp.example/resource", token=op.get("token"))
                seen = {}
                def view(request):
                    seen["t"] = request.oauth1_credential.get_oauth_token()
                    return JsonResponse({"ok": True})
                r = self.rp()(view)(rf.get("/resource", secure=True, HTTP_HOST="sp.example", **hdrs(h)))
                if r.status_code == 200:
                    return self.out(200, None, seen.get("t"))
                import json as _json
                return self.out(r.status_code, _json.loads(r.content.decode()).get("error"))
            body = dict(parse_qsl(r.content.decode()))
            if r.status_code != 200:
                return self.out(r.status_code, body.get("error"))
            return self.out(200, None, body["oauth_token"], body["oauth_token_secret"])
        except Exception as e:
            return {"raised": type(e).__name__ + ": " + str(e)[:80]}

    def snapshot(self):
        temps = []
        for n in range(1, self.store.fresh + 1):
            v = self.dcache.get(f"temporary_credential:tmp{n}")
            if v:
                temps.append([f"tmp{n}", v.get("client_id"), v.get("oauth_verifier"), v.get("user_id")])
        return {"temps": sorted(temps), "creds": sorted([k, c.client_id, c.user_id] for k, c in self.store.creds.items())}


def is_valid_cb(u):
    p = urlparse(u)
    return bool(p.scheme and p.hostname)


def gen_history(rng, length, methods, fault_p=0.0):
    w = World1(methods)
    ops, temps, creds = [], [], []
    ncount = [0]
    def sg(client, tsecret, p_ok=0.85):
        ncount[0] += 1
        r = rng.random()
        d = {"method": rng.choice(["HMAC-SHA1"] * 6 + ["PLAINTEXT", "RSA-SHA1", None]), "timestamp": str(CLOCK.now - rng.choice([0, 0, 0, 10, 299, 301, 5000])),
             "nonce": f"n{ncount[0]}", "signed_with": [SECRETS.get(client, "zz"), tsecret]}
        if r > p_ok:
            flaw = rng.choice(["client-secret", "token-secret", "no-sig", "no-ts", "no-nonce", "bad-ts", "neg-ts", "plain-bare"])
            if flaw == "client-secret": d["signed_with"] = ["wrong", tsecret]
            elif flaw == "token-secret": d["signed_with"] = [SECRETS.get(client, "zz"), "wrong"]
            elif flaw == "no-sig": d["signed_with"] = None
            elif flaw == "no-ts": d["timestamp"] = None
            elif flaw == "no-nonce": d["nonce"] = None
            elif flaw == "bad-ts": d["timestamp"] = rng.choice(["abc", "", "12x"])
            elif flaw == "neg-ts": d["timestamp"] = "-5"
            elif flaw == "plain-bare": d.update(method="PLAINTEXT", timestamp=None, nonce=None)
        return d
    clients = ["ca", "cb"]
    for _ in range(length):
        k = rng.choice(["initiate"] * 3 + ["authorize"] * 3 + ["exchange"] * 5 + ["access"] * 4 + ["advance", "replay", "replay"])
        if k == "replay" and ops:
            prev = rng.choice([o for o in ops if o["op"] in ("initiate", "exchange", "access") and "fault" not in o] or [None])
            if prev is None:
                continue
            op = dict(prev)
        elif k == "initiate":
            c = rng.choice(clients + [None, "ghost"])
            cb = rng.choice(["https://a/cb2", "oob", None, "not a url", "https://a/cb2"])
            op = dict({"op": k, "client": c, "callback": cb, "callback_valid": bool(cb) and is_valid_cb(cb)}, **sg(c, ""))
        elif k == "authorize":
            t = rng.choice(temps) if temps and rng.random() < 0.9 else None
            op = {"op": k, "token": t["token"] if t else rng.choice([None, "tmp999"]), "user": rng.choice([1, 2, 1, None])}
        elif k == "exchange":
            t = rng.choice(temps) if temps and rng.random() < 0.9 else None
            c = (t["client"] if t and rng.random() < 0.8 else rng.choice(clients + [None, "ghost"]))
            ver = (t.get("verifier") if t and rng.random() < 0.8 else rng.choice([None, "ver999", ""]))
            if t and t.get("verifier") and rng.random() < 0.12:
                v0 = t["verifier"]
                ver = rng.choice([v0[:-1], v0[:1], v0 + "x", v0 + "0", v0.upper()])       # proper prefix / extension / other case of the right verifier
            op = dict({"op": k, "client": c, "token": t["token"] if t else rng.choice([None, "tmp999"]), "verifier": ver}, **sg(c, t["secret"] if t else "zz"))
        elif k == "access":
            t = rng.choice(creds) if creds and rng.random() < 0.9 else None
            c = (t["client"] if t and rng.random() < 0.85 else rng.choice(clients + [None]))
            op = dict({"op": k, "client": c, "token": t["token"] if t else rng.choice([None, "tok999"])}, **sg(c, t["secret"] if t else "zz"))
        elif k == "advance":
            op = {"op": "advance", "dt": rng.choice([1, 100, 299, 301, 4000])}
        else:
            continue
        if fault_p and op["op"] != "advance" and rng.random() < fault_p:
            # C19: the request first hits a storage fault at its k-th callback; the repetition is re-signed with a new nonce
            for i in range(rng.choice([1, 1, 2])):
                fop = dict(op, fault=rng.choice([0, 1, 1, 2, 2, 3, 3, 4, 5]))
                if fop.get("nonce") is not None:
                    fop["nonce"] = f"{fop['nonce']}f{i}"
                fo = w.step(fop)
                if fo.get("fault"):
                    fop["done"] = fo["done"]
                ops.append(fop)
        o = w.step(op)
        ops.append(op)
        if "raised" in o:
            break
        if op["op"] == "initiate" and o["status"] == 200:
            temps.append({"token": o["token"], "secret": o["secret"], "client": op["client"]})
        if op["op"] == "authorize" and o.get("verifier"):
            for t in temps:
                if t["token"] == o["token"]:
                    t["verifier"] = o["verifier"]
        if op["op"] == "exchange" and o["status"] == 200:
            creds.append({"token": o["token"], "secret": o["secret"], "client": op["client"]})
    return {"cfg": w.cfg, "ops": ops}


def cases(rng, tier):
    out = []
    n, ln = (150, 16) if tier == "quick" else (3000, 35)
    for i in range(n):
        out.append(gen_history(rng, ln, ["HMAC-SHA1"] if i % 2 == 0 else ["HMAC-SHA1", "PLAINTEXT"]))
    # directed: the full flow and its classic attacks
    def S(c, ts, n, t=str(NOW0)):
        return {"method": "HMAC-SHA1", "timestamp": t, "nonce": n, "signed_with": [SECRETS[c], ts]}
    base = [dict({"op": "initiate", "client": "ca", "callback": "oob", "callback_valid": False}, **S("ca", "", "i1")), {"op": "authorize", "token": "tmp1", "user": 1}]
    for variant in ("ok", "other-client", "no-approval", "wrong-verifier", "verifier-prefix", "verifier-first-char", "verifier-extended", "no-verifier", "wrong-client-secret", "wrong-token-secret", "reuse", "replay-verbatim", "old-timestamp",
                    "unsupported-method", "denied"):
        ops = list(base)
        if variant == "no-approval": ops = ops[:1]
        if variant == "denied": ops[1] = {"op": "authorize", "token": "tmp1", "user": None}
        ex = dict({"op": "exchange", "client": "ca", "token": "tmp1", "verifier": "ver3"}, **S("ca", "tsec2", "e1"))
        if variant == "other-client": ex.update(client="cb", signed_with=[SECRETS["cb"], "tsec2"])
        if variant == "wrong-verifier": ex["verifier"] = "ver4"
        if variant == "verifier-prefix": ex["verifier"] = "ver"
        if variant == "verifier-first-char": ex["verifier"] = "v"
        if variant == "verifier-extended": ex["verifier"] = "ver3x"
        if variant == "no-verifier": ex["verifier"] = None
        if variant == "wrong-client-secret": ex["signed_with"] = ["nope", "tsec2"]
        if variant == "wrong-token-secret": ex["signed_with"] = [SECRETS["ca"], "nope"]
        if variant == "old-timestamp": ex["timestamp"] = str(NOW0 - 301)
        if variant == "unsupported-method": ex["method"] = "PLAINTEXT"
        ops.append(ex)
        if variant == "reuse": ops.append(dict(ex, nonce="e2"))
        if variant == "replay-verbatim": ops.append(dict(ex))
        acc = dict({"op": "access", "client": "ca", "token": "tok4"}, **S("ca", "sec5", "a1"))
        ops += [acc, dict(acc), dict(acc, nonce="a2", signed_with=[SECRETS["ca"], "wrong"]), dict(acc, nonce="a3", client="cb", signed_with=[SECRETS["cb"], "sec5"])]
        out.append({"cfg": World1(["HMAC-SHA1"]).cfg, "ops": ops})
    # a request signed with the STRIPPED form of a stored secret that has white space at its edges is signed with another secret
    for meth in ("HMAC-SHA1", "PLAINTEXT"):
        for sw in (SECRETS["cw"].strip(), SECRETS["cw"], " " + SECRETS["cw"].strip()):
            out.append({"cfg": World1(["HMAC-SHA1", "PLAINTEXT"]).cfg, "ops": [
                dict({"op": "initiate", "client": "cw", "callback": "oob", "callback_valid": False}, **dict(S("cw", "", "w1"), method=meth, signed_with=[sw, ""]))]})
    # PLAINTEXT requests that do carry a timestamp and a nonce (the library's client always sends them): replay and window apply to them too
    for ep in ("access", "exchange", "initiate"):
        for variant in ("replay", "stale", "fresh"):
            ops = [dict(base[0], method="PLAINTEXT"), base[1]]
            ex = dict(dict({"op": "exchange", "client": "ca", "token": "tmp1", "verifier": "ver3"}, **S("ca", "tsec2", "e1")), method="PLAINTEXT")
            acc = dict(dict({"op": "access", "client": "ca", "token": "tok4"}, **S("ca", "sec5", "a1")), method="PLAINTEXT")
            tgt = {"access": acc, "exchange": ex, "initiate": dict(base[0], method="PLAINTEXT", nonce="i9")}[ep]
            if variant == "stale":
                tgt = dict(tgt, timestamp=str(NOW0 - 301))
            if ep == "access":
                ops += [ex, tgt] + ([dict(tgt)] if variant == "replay" else [])
            else:
                ops += [tgt] + ([dict(tgt)] if variant == "replay" else [])
            out.append({"cfg": World1(["HMAC-SHA1", "PLAINTEXT"]).cfg, "ops": ops})
    return out + fw_cases()


ALL_METHODS = ["HMAC-SHA1", "RSA-SHA1", "PLAINTEXT"]


def fw_cases():
    """the Flask / Django integrations read the accepted signature methods from the framework configuration: exactly the configured ones are accepted"""
    out = []
    subsets = [None, ["HMAC-SHA1"], ["RSA-SHA1"], ["PLAINTEXT"], ["HMAC-SHA1", "PLAINTEXT"], ["RSA-SHA1", "PLAINTEXT"], ["RSA-SHA1", "HMAC-SHA1"], list(ALL_METHODS)]
    for fw in ("flask", "django"):
        for conf in subsets:
            for ep in ("initiate", "resource"):
                for m in ALL_METHODS:
                    out.append({"fw": fw, "configured": conf, "ep": ep, "method": m})
        # the configuration given as a tuple (both integrations document "list or tuple")
        for conf in (["RSA-SHA1"], ["PLAINTEXT", "RSA-SHA1"]):
            for ep in ("initiate", "resource"):
                for m in ALL_METHODS:
                    out.append({"fw": fw, "configured": conf, "as_tuple": True, "ep": ep, "method": m})
        if fw == "django":
            # Django settings are plain Python: any collection of method names configures the server
            for kind in ("set", "frozenset"):
                for conf in (["RSA-SHA1"], ["PLAINTEXT", "RSA-SHA1"]):
                    for ep in ("initiate",):          # (the Django resource protector documents and takes a list or tuple only)
                        for m in ALL_METHODS:
                            out.append({"fw": fw, "configured": conf, "as_kind": kind, "ep": ep, "method": m})
        # replays against the integrations' own nonce stores (a cache that honours its timeouts): the same signed request twice
        for ep in ("initiate", "resource"):
            for ahead in (0, 200, -200, 90000):
                for wait in (1, 350, 3000, 86500):
                    out.append({"fw": fw, "configured": None, "ep": ep, "method": "HMAC-SHA1", "replay": {"ahead": ahead, "wait": wait}})
            # the second request is not byte-identical: the query parameters in another order (same base string, same signature), or a second validly
            # signed request to another URL that reuses client, token, timestamp and nonce
            for variant in ("reordered", "other-url"):
                for wait in (1, 350):
                    out.append({"fw": fw, "configured": None, "ep": ep, "method": "HMAC-SHA1", "replay": {"ahead": 0, "wait": wait, "variant": variant}})
    return out


_FW = {}


def _fw_sign(c, url, token=None, token_secret=None, ts=None, nonce=None):
    import joseref as R
    _FW["n"] = _FW.get("n", 0) + 1
    nonce = nonce or f"fw-{_FW['n']}"
    ca_mod.generate_nonce = lambda: nonce
    ca_mod.generate_timestamp = lambda: str(int(CLOCK.now if ts is None else ts))
    auth = ClientAuth("ca", client_secret=SECRETS["ca"], token=token, token_secret=token_secret, redirect_uri="oob" if token is None else None,
                      signature_method=c["method"], rsa_key=R.pem_private(R.keys()["rsa1"]) if c["method"] == "RSA-SHA1" else None)
    _, headers, _ = auth.prepare("POST", url, {}, "")
    return headers["Authorization"]


class TTLCache:
    """a cache that honours its timeouts on the harness clock (what werkzeug / flask-caching back ends do)"""
    def __init__(self): self.d = {}
    def _live(self, k):
        e = self.d.get(k)
        if e is not None and e[1] is not None and e[1] <= CLOCK():
            del self.d[k]
            e = None
        return e
    def get(self, k):
        e = self._live(k)
        return None if e is None else e[0]
    def set(self, k, v, timeout=None): self.d[k] = (v, None if not timeout else CLOCK() + timeout)
    def delete(self, k): self.d.pop(k, None)
    def has(self, k): return self._live(k) is not None


def fw_build(c):
    """one provider built on the integration; returns send(ep, authorization header) -> (status, body text)"""
    import joseref as R
    client = mem1.Client1("ca", SECRETS["ca"], "https://a/cb", R.pem_public(R.keys()["rsa1"]))
    tok = mem1.TokenCred("tok-fw", "sec-fw", "ca", 1)
    conf = c["configured"]
    if conf is not None:
        conf = tuple(conf) if c.get("as_tuple") else set(conf) if c.get("as_kind") == "set" else frozenset(conf) if c.get("as_kind") == "frozenset" else list(conf)
    if c["fw"] == "flask":
        from flask import Flask, jsonify
        from authlib.integrations.flask_oauth1 import AuthorizationServer, ResourceProtector
        from authlib.integrations.flask_oauth1.cache import register_nonce_hooks, register_temporary_credential_hooks, create_exists_nonce_func
        cache = TTLCache()
        app = Flask("c12-fw")
        app.config["PROPAGATE_EXCEPTIONS"] = True
        if conf is not None:
            app.config["OAUTH1_SUPPORTED_SIGNATURE_METHODS"] = conf
        server = AuthorizationServer(app, query_client=lambda cid: client if cid == "ca" else None)
        register_nonce_hooks(server, cache)
        register_temporary_credential_hooks(server, cache)
        require_oauth = ResourceProtector(app, query_client=lambda cid: client if cid == "ca" else None,
                                          query_token=lambda cid, t: tok if (cid, t) == ("ca", "tok-fw") else None, exists_nonce=create_exists_nonce_func(cache))
        app.add_url_rule("/initiate", "initiate", lambda: server.create_temporary_credentials_response(), methods=["POST"])
        app.add_url_rule("/resource", "resource", require_oauth()(lambda: jsonify(ok=True)), methods=["POST"])

        def send(ep, hdr, qs=""):
            resp = app.test_client().open("/" + ep, method="POST", headers={"Authorization": hdr}, base_url="https://sp.example", query_string=qs)
            return resp.status_code, resp.get_data(as_text=True)
        return send
    from django.conf import settings
    if not settings.configured:
        settings.configure(DEBUG=False, SECRET_KEY="x", ALLOWED_HOSTS=["*"])
    import django
    django.setup()
    from django.core.cache import cache as dcache
    from django.http import JsonResponse
    from django.test import RequestFactory
    from authlib.integrations.django_oauth1 import CacheAuthorizationServer, ResourceProtector
    dcache.clear()

    def model(find):
        class DoesNotExist(Exception):
            pass

        class Objects:
            @staticmethod
            def get(**kw):
                r = find(kw)
                if r is None:
                    raise DoesNotExist()
                return r
        return type("M", (), {"DoesNotExist": DoesNotExist, "objects": Objects})
    CM = model(lambda kw: client if kw.get("client_id") == "ca" else None)
    TM = model(lambda kw: tok if (kw.get("client_id"), kw.get("oauth_token")) == ("ca", "tok-fw") else None)
    settings.AUTHLIB_OAUTH1_PROVIDER = {} if conf is None else {"signature_methods": conf}
    try:
        srv, rp = CacheAuthorizationServer(CM, TM), ResourceProtector(CM, TM)
    finally:
        del settings.AUTHLIB_OAUTH1_PROVIDER

    def send(ep, hdr, qs=""):
        req = RequestFactory().post("/" + ep + ("?" + qs if qs else ""), secure=True, HTTP_HOST="sp.example", HTTP_AUTHORIZATION=hdr)
        resp = srv.create_temporary_credentials_response(req) if ep == "initiate" else rp()(lambda request: JsonResponse({"ok": True}))(req)
        return resp.status_code, resp.content.decode()
    return send


def _fw_body(status, text):
    from urllib.parse import parse_qsl
    try:
        body = json.loads(text)
    except Exception:
        body = dict(parse_qsl(text))
    return {"status": status, "error": body.get("error"), "issued": "oauth_token" in body}


def fw_impl(c):
    CLOCK.now = NOW0
    url = f"https://sp.example/{c['ep']}"
    try:
        send = fw_build(c)
        rep = c.get("replay")
        ts = None if not rep else NOW0 + rep["ahead"]
        variant = (rep or {}).get("variant")
        tokargs = () if c["ep"] == "initiate" else ("tok-fw", "sec-fw")
        qs1 = "a=1&b=2" if variant else ""
        hdr = _fw_sign(c, url + ("?" + qs1 if qs1 else ""), *tokargs, ts=ts, nonce="fw-fixed" if variant else None)
        first = _fw_body(*send(c["ep"], hdr, qs1))
        if not rep:
            return first
        CLOCK.now += rep["wait"]
        if variant == "reordered":
            second = _fw_body(*send(c["ep"], hdr, "b=2&a=1"))
        elif variant == "other-url":
            hdr2 = _fw_sign(c, url + "?x=1", *tokargs, ts=ts, nonce="fw-fixed")
            second = _fw_body(*send(c["ep"], hdr2, "x=1"))
        else:
            second = _fw_body(*send(c["ep"], hdr))
        return {"first": first, "second": second}
    except Exception as e:
        return {"raised": f"{type(e).__name__}: {str(e)[:100]}"}


def impl(c):
    if "fw" in c:
        return fw_impl(c)
    def run(w):
        outs = []
        for op in c["ops"]:
            o = w.step(op)
            outs.append(o)
            if "raised" in o:
                break
        return {"outs": outs, "store": w.snapshot()}
    out = run(World1(c["cfg"]["methods"]))
    if not any(op.get("fault") is not None for op in c["ops"]):
        for name, W in (("flask", World1Flask), ("flask-prefix", World1FlaskCustom), ("django", World1Django)):      # the integrations with their own cache hooks must answer the same
            o2 = run(W(c["cfg"]["methods"]))
            if o2 != {k: x for k, x in out.items() if not k.startswith("differs:")}:
                out["differs:" + name] = o2
    return out


def model_line(c):
    if "fw" in c and c.get("replay"):
        rep = c["replay"]
        ts = NOW0 + rep["ahead"]
        key = f"n-{ts}-ca" + ("-tok-fw" if c["ep"] == "resource" else "")        # as the hooks build it: nonce-timestamp-client[-token]
        if rep.get("variant") and rep["wait"] > 300:
            return None
        return {"nonce_model": {"window": 300, "ttl": 86400}, "reqs": [{"now": NOW0, "ts": ts, "key": key}, {"now": NOW0 + rep["wait"], "ts": ts, "key": key}]}
    if "fw" in c:
        return None
    return {"cfg": c["cfg"], "ops": c["ops"]}


def project(c, out):
    if "fw" in c and c.get("replay") and "raised" not in out:
        v = lambda o: "accepted" if o["status"] == 200 else {"invalid_nonce": "replay", "invalid_request": "stale_timestamp"}.get(o["error"], str(o["error"]))
        return {"verdicts": [v(out["first"]), v(out["second"])]}
    return out


def oracle(c, out):
    v = oracle_one(c, {k: x for k, x in out.items() if not k.startswith("differs:")})
    for name in ("flask", "flask-prefix", "django"):
        if "differs:" + name in out:
            v += [(f"[{name} integration with its cache hooks] " + what, dict(sig, fw=name)) for what, sig in oracle_one(c, out["differs:" + name])]
    return v


def oracle_one(c, out):
    v = []
    def bad(what, **sig):
        v.append((what, sig))
    if "fw" in c:
        conf = c["configured"] or ["HMAC-SHA1"]
        where = f"{c['fw']} {'authorization server' if c['ep'] == 'initiate' else 'resource protector'} configured with signature methods {c['configured']}"
        if "raised" in out:
            bad(f"{where}: request raised {out['raised']}", kind="crash", op=c["ep"], exc=out["raised"].split(":")[0])
        elif c.get("replay"):
            rep = c["replay"]
            old = rep["ahead"] < -300
            if (out["first"]["status"] == 200) == old:
                bad(f"{where}: request with a timestamp {rep['ahead']} s from the server clock answered {out['first']}", kind="timestamp-window", fw=c["fw"])
            if out["second"]["status"] == 200:
                bad(f"{c['fw']} {'authorization server' if c['ep'] == 'initiate' else 'resource protector'} with the integration's own nonce store: "
                    f"{ {'reordered': 'the same signed request with its query parameters in another order', 'other-url': 'a second signed request to another URL reusing client, token, timestamp and nonce'}.get(rep.get('variant'), 'the same signed request') } "
                    f"(timestamp {rep['ahead']} s ahead of the server clock) was accepted again {rep['wait']} s later", kind="replay-accepted", fw=c["fw"],
                    horizon="beyond-nonce-memory" if rep["ahead"] - rep["wait"] > -300 and rep["wait"] > 86400 else "within-nonce-memory")
        elif c["method"] in conf and out["status"] != 200:
            bad(f"{where}: a correctly {c['method']}-signed request is refused ({out['status']} {out['error']})", kind="configured-method-refused", fw=c["fw"])
        elif c["method"] not in conf and (out["status"] == 200 or out["error"] != "unsupported_signature_method"):
            bad(f"{where}: a {c['method']}-signed request is answered {out['status']} {out['error']} instead of unsupported_signature_method",
                kind="unconfigured-method-accepted", fw=c["fw"])
        return v
    now = c["cfg"]["now"]
    methods = c["cfg"]["methods"]
    temps, creds, accepted_keys, exchanged = {}, {}, set(), set()
    for op, o in zip(c["ops"], out["outs"]):
        if "raised" in o:
            bad(f"{op['op']} raised {o['raised']}", kind="crash", op=op["op"], exc=o["raised"].split(":")[0]); break
        k = op["op"]
        if k == "advance":
            now += op["dt"]; continue
        if k == "authorize":
            if o.get("verifier"):
                temps[o["token"]].update(verifier=o["verifier"], user=op["user"])
            continue
        ok = o["status"] == 200
        if k == "initiate" and ok:
            temps[o["token"]] = {"client": op["client"], "secret": o["secret"], "verifier": None}
            if (op.get("signed_with") or [None])[0] != SECRETS.get(op.get("client")):
                bad(f"temporary credentials issued to a request signed with the client secret {(op.get('signed_with') or [None])[0]!r}; the client's secret is {SECRETS.get(op.get('client'))!r}",
                    kind="wrong-secret-accepted", op="initiate")
        if k == "initiate" and not ok and (op.get("signed_with") or [None])[0] == SECRETS.get(op.get("client")) and op.get("client") == "cw" and o.get("error") == "invalid_signature":
            bad(f"a request signed with the client's own secret {SECRETS['cw']!r} ({op.get('method')}) was refused with invalid_signature", kind="own-signature-refused", op="initiate")
        if ok:
            # replay defence and method policy hold for every accepted signed request
            if op.get("method") not in methods:
                bad(f"{k} accepted with signature method {op.get('method')!r}, configured: {methods}", kind="unconfigured-method")
            bare_plain = op.get("method") == "PLAINTEXT" and not op.get("timestamp") and not op.get("nonce")
            if not bare_plain:
                key = (op.get("client"), op.get("token") if k != "initiate" else None, op.get("timestamp"), op.get("nonce"))
                if key in accepted_keys:
                    bad(f"the combination (client, token, timestamp, nonce) = {key} was accepted twice", kind="nonce-replay")
                accepted_keys.add(key)
                try:
                    if now - int(op["timestamp"]) > 300:
                        bad("a request whose timestamp is older than the configured window was accepted", kind="old-timestamp")
                except (TypeError, ValueError):
                    bad("a request without a valid timestamp was accepted", kind="old-timestamp")
        if k == "exchange" and ok:
            t = temps.get(op.get("token"))
            why = None
            if t is None: why = "a temporary credential this server never issued"
            elif t["client"] != op.get("client"): why = "a temporary credential issued to another client"
            elif not t["verifier"]: why = "a temporary credential no resource owner approved"
            elif op.get("verifier") != t["verifier"]: why = "a wrong verifier"
            elif op.get("token") in exchanged: why = "a temporary credential that was already exchanged"
            elif op.get("signed_with") != [SECRETS.get(op["client"]), t["secret"]]: why = "a signature not made with the client secret and the temporary secret"
            if why:
                bad(f"token credentials issued for {why}", kind="exchange-wrongly", why=why)
            else:
                exchanged.add(op["token"])
                creds[o["token"]] = {"client": op["client"], "secret": o["secret"], "user": t.get("user")}
        if k == "access" and ok:
            cr = creds.get(op.get("token"))
            if cr is None or op.get("signed_with") != [SECRETS.get(op.get("client")), cr["secret"]]:
                bad("protected resource served to a request not signed with the client's secret and a stored token credential's secret", kind="access-wrongly")
            elif cr["client"] != op.get("client"):
                bad(f"protected resource served to client {op.get('client')!r} presenting the token credential issued to {cr['client']!r}", kind="access-foreign-token")
    return v


def classify(c, out):
    if "fw" in c:
        if c.get("replay"):
            return f"fwreplay/{c['fw']}/{c['ep']}/" + ("raised" if "raised" in out else f"{out['first']['status']}-{out['second']['status']}")
        return f"fwconfig/{c['fw']}/{c['ep']}/" + ("accepted" if out.get("status") == 200 else str(out.get("error") or out.get("raised")))
    return "history/" + str(len(c["ops"]))


def nontrivial(c, out):
    if "fw" in c:
        return [c["fw"], c["configured"], c.get("as_tuple"), c.get("as_kind"), c["ep"], c["method"], c.get("replay")]
    return c["ops"]


def search(breaks, rng, known, match_known):
    for c in cases(rng, "thorough"):
        o = impl(c)
        for what, sig in oracle(c, o):
            if match_known(known, sig) is None:
                return {"what": what, "sig": sig, "case": c, "impl": o}
    return None
