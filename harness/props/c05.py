"""C05 — the authorization endpoint never redirects to an unregistered URI."""
import html
import re
from urllib.parse import urlparse, parse_qsl, urlencode, unquote

import memserver as ms
from memserver import Req, Client
from authlib.oauth2 import OAuth2Error
from authlib.oauth2.rfc9207 import IssuerParameter

RULE = ("one case = (entry point GET-consent / POST-decision, response_type, client, redirect_uri, scope, state, nonce, prompt, response_mode, PKCE parameters, "
        "parameter placement/duplication, approve/deny) against the core in-memory provider with every authorization grant registered; "
        "non-trivial = distinct case whose redirect_uri or client is not the happy-path one")
ASSUMPTIONS = ["reference integrator (memserver.py): client.check_redirect_uri is exact membership, default = first registered URI",
               "hostile characters that make the error constructor raise are C20's subject and are not generated here",
               "the Flask and Django integrations (request wrappers, response builders, configuration) are driven on the same store; their answer is compared with the core server's"]

CLIENTS = [
    {"id": "c1", "secret": "s1", "uris": ["https://good/cb", "https://good/cb2?keep=1&x=a+b", "https://good/cb3?legacy=&native&tenant=acme", "https://good/cb4?tenant=a&tenant=b&t=1"],
     "response_types": ms.ALL_RESPONSE_TYPES, "method": "client_secret_basic"},
    {"id": "p1", "secret": "", "uris": ["https://pub/cb", "https://pub/other"], "response_types": ms.ALL_RESPONSE_TYPES, "method": "none"},
    {"id": "nouri", "secret": "", "uris": [], "response_types": ms.ALL_RESPONSE_TYPES, "method": "none"},
    {"id": "tokonly", "secret": "", "uris": ["https://tok/cb"], "response_types": ["token"], "method": "none"},
    {"id": "codeonly", "secret": "s", "uris": ["https://code/cb"], "response_types": ["code"], "method": "client_secret_post"},
    # a native app (RFC 8252) with port-less loopback redirect URIs registered
    {"id": "native", "secret": "", "uris": ["http://127.0.0.1/cb", "http://[::1]/cb"], "response_types": ms.ALL_RESPONSE_TYPES, "method": "none"},
]
RTS = ["code", "token", "id_token", "id_token token", "token id_token", "code id_token", "id_token code", "code token", "code id_token token", "token code id_token",
       "bogus", "", None, "code code", "code\tid_token"]
CIDS = ["c1", "p1", "nouri", "tokonly", "codeonly", "native", "native", "unknown", "", None]
URIS = [None, "", "https://good/cb", "https://good/cb2?keep=1&x=a+b", "https://good/cb3?legacy=&native&tenant=acme", "https://good/cb3?tenant=acme", "https://good/cb4?tenant=a&tenant=b&t=1", "https://good/cb4?tenant=b&t=1", "https://pub/cb", "https://pub/other", "https://tok/cb", "https://code/cb",
        "https://evil/cb", "https://good/cbx", "https://good/cb/", "https://good/c", "https://good/cb?x=1", "https://good/CB", "good/cb", "https://good/cb#frag",
        "javascript:alert(1)", "https://good/cb2", "https://evil/cb?keep=1&x=a+b", "//good/cb",
        "http://127.0.0.1/cb", "http://[::1]/cb", "http://127.0.0.1:51004/cb", "http://user@127.0.0.1:7/cb", "http://[::1]:8080/cb", "http://127.0.0.1:80/cb", "http://localhost/cb"]
SCOPES = [None, "", "openid", "openid profile", "profile", "profile openid", "zzz", "openid zzz"]
STATES = [None, "", "xyz", "a b&c=d#e", " lead", "trail ", "\tboth\n", " "]
NONCES = [None, "", "n1", "used"]
PROMPTS = [None, "", "none", "login", "none login", "consent"]
MODES = [None, "query", "fragment", "form_post", "bogus"]
CHALLENGES = [(None, None), ("c" * 43, None), ("c" * 43, "S256"), ("c" * 42, "S256"), ("c" * 43 + "\n", "plain"), (None, "S256"), ("c" * 43, "S512"), ("!" * 43, None)]


POOLS = {"rt": RTS, "cid": CIDS, "uri": URIS, "scope": SCOPES, "state": STATES, "nonce": NONCES, "prompt": PROMPTS, "mode": MODES}


def valid_base(rng):
    """a request every check accepts: the mostly-valid stream starts here and is then mutated in 0–3 fields"""
    cid = rng.choice(["c1", "p1", "p1", "tokonly", "codeonly"])
    cl = {x["id"]: x for x in CLIENTS}[cid]
    if cl["method"] == "none":
        rts = [r for r in RTS[:10] if " ".join(sorted(r.split())) in cl["response_types"] or r in cl["response_types"]]
    else:
        rts = [r for r in ["code", "code id_token", "id_token code", "code token", "code id_token token"] if " ".join(sorted(r.split())) in cl["response_types"]]
    rt = rng.choice(rts)
    oidc = rt != "code" and rt != "token"
    return {"rt": rt, "cid": cid, "uri": rng.choice([None] + cl["uris"]), "scope": rng.choice(["openid", "openid profile", "profile openid"] if oidc else SCOPES[:6]),
            "state": rng.choice(STATES), "nonce": "n1" if oidc else rng.choice([None, "n1"]), "prompt": rng.choice([None, None, "login", "consent"]),
            "mode": rng.choice(MODES[:4]), }


def cases(rng, tier):
    out = []
    n = 3500 if tier == "quick" else 40000
    seen = set()
    while len(out) < n:
        ch, chm = rng.choice(CHALLENGES)
        if rng.random() < 0.7:
            c = valid_base(rng)
            ch, chm = rng.choice(CHALLENGES[:3] + [(None, None)] * 3)
            for f in rng.sample(sorted(POOLS), rng.choice([0, 0, 1, 1, 2, 3])):
                c[f] = rng.choice(POOLS[f])
            if rng.random() < 0.15:
                ch, chm = rng.choice(CHALLENGES)
        else:
            c = {f: rng.choice(POOLS[f]) for f in POOLS}
        c.update({"op": rng.choice(["respond", "respond", "consent"]), "challenge": ch, "challenge_method": chm,
                  "approve": rng.random() < 0.6, "user": rng.random() < 0.8, "supported": rng.choice([None, None, ["openid", "profile"]]),
                  "secret_param": rng.random() < 0.05, "place": rng.choice(["form", "form", "query", "split"]),
                  "dup": rng.choice([None, None, None, None, "state", "redirect_uri", "client_id", "scope", "response_type", "code_challenge"]),
                  "require_nonce": rng.random() < 0.3,
                  # the request object still carries the resource owner from the consent step (request.user) while the decision is a denial
                  "user_on_request": rng.random() < 0.3,
                  # the RFC 9207 extension (iss response parameter) registered on every authorization grant
                  "issuer": rng.random() < 0.3})
        k = repr(sorted(c.items(), key=lambda kv: kv[0]))
        if k in seen:
            continue
        seen.add(k); out.append(c)
    # the client lookup of the SQLAlchemy integration: identifiers that are patterns to a LIKE, differ in letter case, or carry stray blanks name NO client
    for cid in ("c1", "%", "_1", "c%", "C1", "c_", "%1", "c1 ", " c1", "portal-7f3a", "_ortal-7f3a", "portal%", "PORTAL-7F3A", "c1%00", "c1\\"):
        for rt in ("code", "token", "id_token"):
            out.append({"op": "sqla_lookup", "cid": cid, "rt": rt})
    return out


def build_request(c):
    params = []
    def add(k, v):
        if v is not None:
            params.append((k, v))
    add("response_type", c["rt"]); add("client_id", c["cid"]); add("redirect_uri", c["uri"]); add("scope", c["scope"]); add("state", c["state"])
    add("nonce", c["nonce"]); add("prompt", c["prompt"]); add("response_mode", c["mode"]); add("code_challenge", c["challenge"])
    add("code_challenge_method", c["challenge_method"])
    if c["secret_param"]:
        add("client_secret", "whatever")
    method = "GET" if c["op"] == "consent" else "POST"
    place = c["place"] if method == "POST" else "query"          # a GET request has no form body
    q, f = [], {}
    for i, (k, v) in enumerate(params):
        if place == "query" or (place == "split" and i % 2 == 0):
            q.append((k, v))
        else:
            f[k] = v
    if c["dup"]:
        v = dict(params).get(c["dup"])
        if v is not None:
            # the same parameter once more on the other carrier (query + form) — same value, so request.data is unchanged
            if c["dup"] in f:
                q.append((c["dup"], v))
            else:
                q.append((c["dup"], v))
    uri = "https://as.example/authorize" + ("?" + urlencode(q) if q else "")
    return Req(method, uri, f, {}, None)


FRAMEWORKS = [None, "flask", "django"]
ISSUER = "https://as.example"


class Issuer(IssuerParameter):
    def get_issuer(self):
        return ISSUER


def server(c, framework=None):
    store, srv, rp = ms.build(scopes_supported=c["supported"], oidc=True, require_nonce=c["require_nonce"], framework=framework)
    for cl in CLIENTS:
        store.clients[cl["id"]] = Client(cl["id"], cl["secret"], cl["uris"], "openid profile zzz", ms.ALL_GRANT_TYPES, cl["response_types"], cl["method"])
    for cl in CLIENTS:
        store.used_nonces.add((cl["id"], "used"))
    if c.get("issuer"):
        for i, (g, ext) in enumerate(srv._authorization_grants):
            srv._authorization_grants[i] = (g, list(ext or []) + [Issuer()])
    return store, srv


PROTO = {"iss", "code", "state", "error", "error_description", "access_token", "token_type", "expires_in", "scope", "id_token"}
LABEL = {"code": "<code>", "access_token": "<token>", "id_token": "<id_token>"}


def canon_target(uri, mode=None):
    """(scheme, netloc, path, own query params, own fragment) with protocol parameters removed"""
    u = urlparse(uri)
    q = [(k, v) for k, v in parse_qsl(u.query, keep_blank_values=True) if k not in PROTO]
    fr = u.fragment
    if "=" in fr:
        fr = urlencode([(k, v) for k, v in parse_qsl(fr, keep_blank_values=True) if k not in PROTO])
    return [u.scheme, u.netloc, u.path, [list(x) for x in q], fr]


def canon_params(pairs):
    out = []
    for k, v in pairs:
        if k in ("error", "state", "token_type", "iss"):
            out.append([k, v])
        elif k in LABEL:
            out.append([k, LABEL[k]])
    return out


def canon_response(r):
    hdr = dict(r.headers)
    if r.status == 302 and "Location" in hdr:
        loc = hdr["Location"]
        u = urlparse(loc)
        qp = [(k, v) for k, v in parse_qsl(u.query, keep_blank_values=True)]
        fp = [(k, v) for k, v in parse_qsl(u.fragment, keep_blank_values=True)] if "=" in u.fragment else []
        if any(k in PROTO for k, _ in fp):
            # (the RFC 9207 hook appends iss to the URL's query also when the response parameters travel in the fragment)
            mode, params = "fragment", [(k, v) for k, v in fp if k in PROTO] + [(k, v) for k, v in qp if k == "iss"]
        else:
            mode, params = "query", [(k, v) for k, v in qp if k in PROTO]
        return {"redirect": {"target": canon_target(loc), "mode": mode, "params": canon_params(params)}, "_location": loc, "_all": qp if mode == "query" else fp}
    if r.status == 200 and isinstance(r.body, str) and "<form" in r.body:
        action = re.search(r'action="([^"]*)"', r.body).group(1)
        inputs = re.findall(r'name="([^"]*)" value="([^"]*)"', r.body)
        pairs = [(unquote(k), unquote(v)) for k, v in inputs]
        return {"redirect": {"target": canon_target(unquote(action)), "mode": "form_post", "params": canon_params(pairs)}, "_location": unquote(action), "_all": pairs}
    body = r.body if isinstance(r.body, dict) else {}
    return {"local": {"status": r.status, "error": body.get("error", "?")}}


def impl_one(c, framework):
    store, srv = server(c, framework)
    req = build_request(c)
    user = store.users[1] if c["user"] else None
    try:
        if c["op"] == "consent":
            req.user = user
            def consent(request, end_user):
                try:
                    srv.get_consent_grant(request, end_user)
                    return {"consent": True}
                except OAuth2Error as e:
                    return srv.handle_error_response(request, e)
            if framework is None:
                r = consent(req, user)
            else:
                srv.consent_view = consent
                r = ms.fw_call(srv, req, "consent_view", end_user=user)
            return r if isinstance(r, dict) else canon_response(r)
        if c.get("user_on_request") and framework is None:
            req.user = store.users[1]
            req = srv.create_oauth2_request(req)       # the library's own request object, as get_consent_grant leaves it
        r = ms.fw_call(srv, req, "create_authorization_response", grant_user=store.users[1] if c["approve"] else None)
        return canon_response(r)
    except Exception as e:
        return {"raised": type(e).__name__ + ": " + str(e)[:100]}


_SQLA = {}


def sqla_query_client():
    """the repo's own SQLAlchemy client lookup (sqla_oauth2.create_query_client_func) over an in-memory SQLite table holding client c1"""
    if not _SQLA:
        from sqlalchemy import create_engine, Column, Integer
        from sqlalchemy.orm import declarative_base, sessionmaker
        from authlib.integrations.sqla_oauth2 import OAuth2ClientMixin
        Base = declarative_base()

        class ClientRow(Base, OAuth2ClientMixin):
            __tablename__ = "oauth2_client"
            id = Column(Integer, primary_key=True)
        engine = create_engine("sqlite://")
        Base.metadata.create_all(engine)
        session = sessionmaker(bind=engine)()
        for cid in ("c1", "portal-7f3a"):
            row = ClientRow(client_id=cid, client_secret="")
            row.set_client_metadata({"redirect_uris": ["https://good/cb"], "scope": "openid profile", "grant_types": list(ms.ALL_GRANT_TYPES),
                                     "response_types": list(ms.ALL_RESPONSE_TYPES), "token_endpoint_auth_method": "none"})
            session.add(row)
        session.commit()
        _SQLA["session"], _SQLA["model"] = session, ClientRow
    from authlib.integrations.sqla_oauth2 import create_query_client_func
    return create_query_client_func(_SQLA["session"], _SQLA["model"])


def impl_sqla(c):
    store, srv, rp = ms.build(oidc=True)
    srv.query_client = sqla_query_client()
    form = dict(response_type=c["rt"], client_id=c["cid"], scope="openid profile" if c["rt"] != "code" and c["rt"] != "token" else "profile", state="s", nonce="n1")
    try:
        r = srv.create_authorization_response(Req("POST", "https://as.example/authorize", form), grant_user=store.users[1])
        return canon_response(r)
    except Exception as e:
        return {"raised": type(e).__name__ + ": " + str(e)[:100]}


def impl(c):
    """the same request against the core server and against the Flask and Django integrations (their request wrappers and response builders)"""
    if c.get("op") == "sqla_lookup":
        return impl_sqla(c)
    out = impl_one(c, None)
    for fw in FRAMEWORKS[1:]:
        o = impl_one(c, fw)
        if project_one(o) != project_one(out):
            out = dict(out, **{"_" + fw: o})        # only a differing answer is kept (and compared)
    return out


def model_line(c):
    if c.get("op") == "sqla_lookup":
        return None
    req = build_request(c)
    # what request.data / datalist look like (query first, form overrides)
    from collections import Counter
    q = parse_qsl(urlparse(req.uri).query, keep_blank_values=True)
    data = dict(q); data.update(req.form)
    cnt = Counter([k for k, _ in q] + list(req.form))
    r = {k: data.get(k) for k in ("response_type", "client_id", "redirect_uri", "scope", "state", "nonce", "prompt", "response_mode", "code_challenge", "code_challenge_method")}
    r["client_secret_present"] = bool(data.get("client_secret"))
    r["multiple"] = [k for k, n in cnt.items() if n > 1]
    cfg = {"grants": ["code", "oidc_implicit", "hybrid", "implicit"], "scopes_supported": c["supported"], "oidc_code_ext": True, "require_nonce": c["require_nonce"],
           "clients": [{"id": cl["id"], "uris": cl["uris"], "response_types": cl["response_types"], "method": cl["method"]} for cl in CLIENTS],
           "used_nonces": [[cl["id"], "used"] for cl in CLIENTS]}
    line = {"op": c["op"], "cfg": cfg, "req": r, "approve": c["approve"], "user": c["user"]}
    if c.get("issuer") and c["op"] == "respond":
        line["issuer"] = ISSUER
    return line


def project_one(out):
    if "redirect" in out:
        return {"redirect": out["redirect"]}
    return {k: v for k, v in out.items() if not k.startswith("_")}


def project(c, out):
    p = project_one(out)
    for fw in FRAMEWORKS[1:]:
        if "_" + fw in out:
            p["differs:" + fw] = project_one(out["_" + fw])
    return p


def model_canon(mo):
    """bring the model's answer into the same canonical form (Python canonicalises the registered URI string the same way)"""
    if "redirect" in mo:
        r = mo["redirect"]
        return {"redirect": {"target": canon_target(r["target"]), "mode": r["mode"], "params": [list(p) for p in r["params"]]}}
    return mo


def oracle(c, out):
    if c.get("op") == "sqla_lookup":
        known = c["cid"] in ("c1", "portal-7f3a")
        if "raised" in out:
            return [(f"SQLAlchemy client lookup, client_id {c['cid']!r}: authorization endpoint raised {out['raised']}", {"kind": "crash", "exc": out["raised"].split(":")[0], "op": "sqla_lookup"})]
        if "redirect" in out and not known:
            return [(f"SQLAlchemy client lookup: the request names client_id {c['cid']!r}, which no client has, and the user agent was sent to {out['_location']!r}",
                     {"kind": "unregistered-redirect", "rt": c["rt"], "mode": out["redirect"]["mode"], "op": "sqla_lookup"})]
        if "redirect" not in out and known:
            return [(f"SQLAlchemy client lookup: the existing client {c['cid']!r} was answered locally with {out}", {"kind": "known-client-refused", "op": "sqla_lookup"})]
        return []
    v = oracle_one(c, out, "core")
    for fw in FRAMEWORKS[1:]:
        if "_" + fw in out:
            v += oracle_one(c, out["_" + fw], fw)
    return v


def oracle_one(c, out, fw):
    v = []
    def bad(what, **sig):
        v.append(((what if fw == "core" else f"[{fw} integration] {what}"), dict(sig, op=c["op"], **({} if fw == "core" else {"fw": fw}))))
    if "raised" in out:
        bad(f"authorization endpoint raised {out['raised']}", kind="crash", exc=out["raised"].split(":")[0]); return v
    cl = {x["id"]: x for x in CLIENTS}.get(c["cid"])
    if "redirect" in out:
        tgt = out["redirect"]["target"]
        reg = [canon_target(u) for u in (cl["uris"] if cl else [])]
        if cl is None or tgt not in reg:
            bad(f"user agent sent to {out['_location']!r}, which is not a redirect URI registered by the identified client", kind="unregistered-redirect",
                rt=str(c["rt"]), mode=out["redirect"]["mode"])
        else:
            want = canon_target(c["uri"]) if c["uri"] else canon_target(cl["uris"][0])
            if tgt != want:
                bad(f"redirected to a registered URI that is neither the requested one nor the default: {out['_location']!r}", kind="wrong-registered-uri")
            # pre-existing query parameters of the registered URI are preserved, in order, in front
            own = [tuple(x) for x in tgt[3]]
            allq = [(k, v2) for k, v2 in parse_qsl(urlparse(out["_location"]).query, keep_blank_values=True)]
            if allq[:len(own)] != own:
                bad("pre-existing query parameters of the registered URI were dropped, altered or reordered", kind="query-not-preserved")
        states = [val for k, val in out["_all"] if k == "state"]
        want_state = [c["state"]] if c["state"] else []
        if states != want_state:
            bad(f"state returned {states!r}, request had {c['state']!r}", kind="state-echo", mode=out["redirect"]["mode"])
        if c.get("issuer") and c["op"] == "respond" and out["redirect"]["mode"] != "form_post":
            iss = [val for k, val in parse_qsl(urlparse(out["_location"]).query, keep_blank_values=True) + parse_qsl(urlparse(out["_location"]).fragment, keep_blank_values=True) if k == "iss"]
            if iss != [ISSUER]:
                bad(f"RFC 9207 extension registered: redirect carries iss {iss!r}, expected exactly [{ISSUER!r}]", kind="iss-parameter")
        creds = [k for k, _ in out["_all"] if k in ("code", "access_token", "id_token")]
        if creds and (c["op"] == "consent" or not c["approve"]):
            bad(f"{creds} handed out without the resource owner's approval", kind="credential-without-approval")
    return v


def classify(c, out):
    if c.get("op") == "sqla_lookup":
        return "sqla_lookup/" + ("redirect" if "redirect" in out else "local")
    if "redirect" in out:
        errs = [p[1] for p in out["redirect"]["params"] if p[0] == "error"]
        return f"{c['op']}/redirect/{out['redirect']['mode']}/" + (errs[0] if errs else "granted")
    if "local" in out:
        return f"{c['op']}/local/{out['local']['error']}"
    return f"{c['op']}/" + ("consent" if "consent" in out else "raised")


def nontrivial(c, out):
    return c


def search(breaks, rng, known, match_known):
    for c in cases(rng, "thorough"):
        o = impl(c)
        for what, sig in oracle(c, o):
            if match_known(known, sig) is None:
                return {"what": what, "sig": sig, "case": c, "impl": project(c, o)}
    return None
