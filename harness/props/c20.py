"""C20 — untrusted input always ends in a protocol-level outcome, never a crash (inputs)."""
import base64
import copy
import json
import os
import traceback

import memserver as ms
import mem1
import provider_hist as H
import regworld as rw
from memserver import Req, CLOCK
from authlib.oauth2 import OAuth2Error

RULE = ("one case = one request to a provider endpoint (OAuth 2 authorization, token per grant, revocation, introspection, device authorization, registration, client "
        "configuration, bearer resource protector; OAuth 1 initiate / authorize / token / resource) or one JOSE parsing call, built from a valid base request by replacing one "
        "parameter / header / token segment (quick) or a pair (also quick, sampled; thorough: many more pairs) with values from a hostile pool: empty, long, '\"', '\\\\', NUL, CR/LF, "
        "non-ASCII, invalid percent escapes, list-valued, wrong JSON types, malformed base64 / JSON. Outcome: an HTTP response (status, error code, description, headers) or the "
        "escaping exception with its raising site in the library")
ASSUMPTIONS = ["endpoints run on the in-memory reference integrators (memserver.py / mem1.py / regworld.py); the framework glue that turns a raw HTTP request into the request "
               "object is represented by the core OAuth2Request / OAuth1Request / JsonRequest classes",
               "registered error codes = those of RFC 6749 §4.1.2.1/§5.2, RFC 6750, RFC 7009, RFC 7591, RFC 8628, OIDC Core §3.1.2.6, RFC 5849 problem reporting (table REGISTERED)"]

REGISTERED = {"invalid_request", "invalid_client", "invalid_grant", "unauthorized_client", "unsupported_grant_type", "invalid_scope", "access_denied", "unsupported_response_type",
              "server_error", "temporarily_unavailable", "invalid_token", "insufficient_scope", "unsupported_token_type", "invalid_redirect_uri", "invalid_client_metadata",
              "invalid_software_statement", "unapproved_software_statement", "authorization_pending", "slow_down", "expired_token", "interaction_required", "login_required",
              "account_selection_required", "consent_required", "invalid_request_uri", "invalid_request_object", "request_not_supported", "request_uri_not_supported",
              "registration_not_supported", "missing_authorization", "unsupported_response_mode",
              # OAuth 1 (RFC 5849 has no registry; the library's own codes, listed in its errors module)
              "missing_required_parameter", "duplicated_oauth_protocol_parameter", "unsupported_signature_method", "invalid_nonce", "invalid_signature",
              "method_not_allowed", "insecure_transport"}

LONG = "A" * 5000
HOSTILE = ["", LONG, '"', "\\", "a\x00b", "a\r\nb", "é", "你好", "%zz", "%", "a b", "a+b", "a&b=c", "a#b", "'", "<script>", "%FF%FE", "\x7f", " ", "\t", "a;b", "a,b",
           "null", "0", "[]", "{}", "é" * 50, "ü" * 43 + "-._~", "w" * 42 + "ö", "٣" * 60, "A" * 129, "a" * 43 + "\n",
           # strings the URL parsers of the standard library refuse (unbalanced brackets, hosts that change under NFKC)
           "https://[", "https://host]/cb", "https://[::1/cb", "https://ex\u2100mple.com/cb", "https://a\uff0fb/cb", "http://[::1]:x/cb"]
HOSTILE_NONSTR = [None]      # a parameter given several times reaches the core classes through datalist, not as a list value


def site_of(exc):
    tb = traceback.extract_tb(exc.__traceback__)
    for fr in reversed(tb):
        if "/authlib/" in fr.filename:
            return fr.filename.split("/authlib/")[-1] + ":" + fr.name
    return "outside-library"


def desc_ok(d):
    return all(0x20 <= ord(c) <= 0x7e and c not in '"\\' for c in d)


def observe(fn, endpoint=False):
    """run an endpoint call; a response or the escaping exception"""
    try:
        r = fn()
    except OAuth2Error as e:            # resource protectors raise the protocol error to the framework layer, which renders it
        if endpoint:                    # … the server's create_*_response methods answer themselves: an escaping protocol error is an unhandled exception in the view
            return {"kind": "raised", "exc": type(e).__name__, "site": site_of(e), "msg": str(e)[:120]}
        return {"kind": "response", "status": e.status_code, "error": e.error, "description": e.description or "", "headers": {}, "body": {}}
    except Exception as e:
        from authlib.oauth1.rfc5849.errors import OAuth1Error
        if isinstance(e, OAuth1Error):
            return {"kind": "response", "status": e.status_code, "error": e.error, "description": e.description or "", "headers": {}, "body": {}}
        return {"kind": "raised", "exc": type(e).__name__, "site": site_of(e), "msg": str(e)[:120]}
    status = getattr(r, "status", None)
    body = getattr(r, "body", None)
    if body is None:
        body = getattr(r, "payload", None)
    headers = dict(getattr(r, "headers", {}) or {})
    out = {"kind": "response", "status": status, "headers": {k: v for k, v in headers.items() if k in ("Cache-Control", "Pragma", "Content-Type", "WWW-Authenticate")},
           "error": None, "description": "", "body": {}}
    if isinstance(body, (list, tuple)):
        body = dict(body)
    if isinstance(body, dict):
        out["error"] = body.get("error")
        out["description"] = body.get("error_description") or ""
        out["body"] = {k: (v if isinstance(v, (str, int, bool, type(None))) else str(type(v).__name__)) for k, v in body.items() if k in ("access_token", "token_type", "active")}
    loc = headers.get("Location")
    if loc:
        from urllib.parse import urlparse, parse_qsl
        u = urlparse(loc)
        q = dict(parse_qsl(u.query, keep_blank_values=True)); q.update(parse_qsl(u.fragment, keep_blank_values=True))
        out["error"] = q.get("error", out["error"])
        out["description"] = q.get("error_description", out["description"])
        out["redirected"] = True
    return out


# ---- OAuth 2 endpoints ----------------------------------------------------------------------------
def world2(framework=None, supported=None):
    w = H.World(framework=framework, supported=supported)
    w.store.jwt = dict(w.store.jwt)
    # a live code, token and device code to aim valid-looking requests at
    w.step({"op": "authorize", "client": "c1", "redirect": "https://c1/cb", "scope": "a b", "challenge": H.s256(H.V43), "method": "S256", "user": 1, "approve": True})
    w.step({"op": "issue_password", "auth": ["c1", "client_secret_basic"], "user": 1, "scope": "a b"})
    w.step({"op": "device_authorize", "auth": ["c1", "client_secret_basic"], "client_id": "c1", "scope": "a"})
    return w


BASIC_C1 = ms.basic("c1", "s1")["Authorization"]
HOSTILE_AUTH = ["", "Basic", "Basic ", "Basic !!!", "Basic " + base64.b64encode(b"\xff\xfe:x").decode(), "Basic " + base64.b64encode(b"nocolon").decode(),
                "Basic " + base64.b64encode("c1:é".encode()).decode(), "Basic " + base64.b64encode(b"c1%zz:s1").decode(), "Basic " + base64.b64encode(b"c1%ff:s1").decode(), "Basic " + base64.b64encode(b"c1:s%c3%28").decode(),
                "Basic " + base64.b64encode(b"%e2%82:s1").decode(), "Basic " + base64.b64encode(b"c1:%80").decode(), "Basic " + "A" * 5000, "Bearer", "Bearer ", "Bearer a b",
                "Bearer é", "Bearer " + "\x00", "bearer at2", "OAuth realm=\"x\"", "Digest x", "é", "Basic\tYzE6czE=", "Basic YzE6czE=, Bearer x", 'Bearer "x"']

OAUTH2_ENDPOINTS = {
    "authorize": ("authorization", {"response_type": "code", "client_id": "c1", "redirect_uri": "https://c1/cb", "scope": "a", "state": "st", "code_challenge": H.s256(H.V43),
                                    "code_challenge_method": "S256", "nonce": "n1", "response_mode": "query", "prompt": "none", "max_age": "10"}, {}),
    "token_code": ("token", {"grant_type": "authorization_code", "code": "code1", "redirect_uri": "https://c1/cb", "code_verifier": H.V43, "client_id": "c1"}, {"Authorization": BASIC_C1}),
    "token_password": ("token", {"grant_type": "password", "username": "1", "password": "pw", "scope": "a"}, {"Authorization": BASIC_C1}),
    "token_cc": ("token", {"grant_type": "client_credentials", "scope": "a", "client_id": "c2", "client_secret": "s2"}, {}),
    "token_refresh": ("token", {"grant_type": "refresh_token", "refresh_token": "rt3", "scope": "a"}, {"Authorization": BASIC_C1}),
    "token_device": ("token", {"grant_type": "urn:ietf:params:oauth:grant-type:device_code", "device_code": "dc4", "client_id": "c1"}, {"Authorization": BASIC_C1}),
    "revocation": ("revocation", {"token": "at2", "token_type_hint": "access_token"}, {"Authorization": BASIC_C1}),
    "introspection": ("introspection", {"token": "at2", "token_type_hint": "access_token"}, {"Authorization": BASIC_C1}),
    "device_authorization": ("device_authorization", {"client_id": "c1", "scope": "a"}, {"Authorization": BASIC_C1}),
}


def call_oauth2(w, name, form, headers, via="form", method="POST"):
    kind = OAUTH2_ENDPOINTS[name][0]
    uri = {"authorization": "https://as.example/authorize", "token": ms.TOKEN_URL}.get(kind, "https://as.example/ep")
    if via == "query":
        from urllib.parse import urlencode
        uri = uri + "?" + urlencode({k: v for k, v in form.items() if isinstance(v, str)}, errors="surrogatepass")
        form_ = {}
    elif via == "rawquery":
        uri = uri + "?" + "&".join(f"{k}={v}" for k, v in form.items() if isinstance(v, str))
        form_ = {}
    elif via == "json":
        form_ = {}
    else:
        form_ = {k: v for k, v in form.items() if v is not None}
    req = Req(method if kind != "authorization" or via in ("form", "json") else "GET", uri, form_, headers, json_body=form if via == "json" else None)
    def call():
        try:
            if kind == "authorization":
                return ms.fw_call(w.srv, req, "create_authorization_response", grant_user=w.store.users[1])
            if kind == "token":
                return ms.fw_call(w.srv, req, "create_token_response")
            return ms.fw_call(w.srv, req, "create_endpoint_response", kind)
        except Exception as e:
            tb = "".join(traceback.format_tb(e.__traceback__))
            if getattr(w.srv, "framework", None) and "/authlib/" not in tb.split("fw_call")[-1]:
                # the framework's own request machinery refused the value before the library saw it
                return type("T", (), {"status": 400, "body": {"error": "invalid_request"}, "headers": {}})()
            raise
    return observe(call, endpoint=True)


def world2j():
    """provider with RFC 7523 client assertion authentication and the JWT bearer grant enabled"""
    w = world2()
    ms.enable_jwt_client_auth(w.store, w.srv)
    w.srv.register_grant(ms.JwtBearerGrant)

    class CC(ms.ClientCredentialsGrant):
        TOKEN_ENDPOINT_AUTH_METHODS = ["client_secret_basic", "client_secret_post", ms._JBCA.CLIENT_AUTH_METHOD]
    w.srv._token_grants = [((CC if g is ms.ClientCredentialsGrant else g), ext) for g, ext in w.srv._token_grants]
    w.store.clients["cj"] = ms.Client("cj", "secret-of-cj-0123456789abcdef", ["https://cj/cb"], "a b", ms.ALL_GRANT_TYPES, ms.ALL_RESPONSE_TYPES, ms._JBCA.CLIENT_AUTH_METHOD)
    return w


def client_assertion(cid="cj", secret="secret-of-cj-0123456789abcdef", **over):
    from authlib.jose import jwt
    claims = {"iss": cid, "sub": cid, "aud": ms.TOKEN_URL, "exp": CLOCK.now + 300, "iat": CLOCK.now, "jti": "j1"}
    claims.update(over)
    return jwt.encode({"alg": "HS256"}, {k: v for k, v in claims.items() if v is not DROP}, secret).decode()


DROP = object()
ASSERTION_TYPE = "urn:ietf:params:oauth:client-assertion-type:jwt-bearer"


def call_jwt_endpoint(kind, token):
    ms.install_clock(); CLOCK.now = 1_000_000
    if kind == "rfc9068":
        from props import c10
        from authlib.oauth2 import ResourceProtector
        rp = ResourceProtector()
        rp.register_token_validator(c10.V(issuer=c10.ISS, resource_server=c10.RS))
        class R:
            headers = {"Authorization": "Bearer " + token}
        return observe(lambda: (rp.validate_request(None, R), type("T", (), {"status": 200, "body": {}, "headers": {}})())[1])
    w = world2j()
    if kind == "client_assertion":
        form = {"grant_type": "client_credentials", "scope": "a", "client_assertion_type": ASSERTION_TYPE, "client_assertion": token}
    else:
        form = {"grant_type": ms.JWT_BEARER, "assertion": token, "scope": "a"}
    return observe(lambda: w.srv.create_token_response(Req("POST", ms.TOKEN_URL, form, {})), endpoint=True)


def jwt_endpoint_tokens():
    ms.install_clock(); CLOCK.now = 1_000_000
    from props import c10
    out = []
    good = {"client_assertion": client_assertion(), "jwt_bearer": ms.jwt_bearer_assertion("c1"), "rfc9068": c10.craft([])}
    if isinstance(good["jwt_bearer"], bytes):
        good["jwt_bearer"] = good["jwt_bearer"].decode()
    for kind, tok in good.items():
        out.append((kind, tok))
        segs = tok.split(".")
        for i in range(3):
            for s_ in SEG_POOL:
                parts = list(segs); parts[i] = s_
                out.append((kind, ".".join(parts)))
        for arg in ("", "a", "a.b", "a.b.c.d", "..", "é.é.é", LONG):
            out.append((kind, arg))
    import json as _json
    for hdr in ({"alg": "HS256", "crit": ['"x"']}, {"alg": "HS256", "crit": ["é"]}, {"alg": "HS256", "crit": ["b64"], "b64": False}, {"alg": "HS256", "crit": ["a\\b"], "a\\b": 1},
                {"alg": "HS256", "crit": [5]}, {"alg": "HS256", "crit": [["exp"]]}, {"alg": "HS256", "crit": [{}]}, {"alg": "HS256", "crit": [None]}, {"alg": "HS256", "crit": "x"}, {"alg": "HS256", "kid": '"'}, {"alg": '"'}, {"alg": "HS256", "typ": '"'}):
        for pl in (b'{"iss":"cj","sub":"cj"}', b'{"iss":"c1","sub":"1"}'):
            for kind in ("client_assertion", "jwt_bearer", "rfc9068"):
                out.append((kind, b64(_json.dumps(hdr).encode()) + "." + b64(pl) + "." + b64(b"sig")))
    # the header names every registered signature algorithm in turn, whatever kind of key the server holds for the sender
    from authlib.jose import JsonWebSignature
    kids = [None] + [k.kid for k in c10.V(issuer=c10.ISS, resource_server=c10.RS).get_jwks().keys]
    for alg in sorted(JsonWebSignature.ALGORITHMS_REGISTRY):
        for kid in kids:
            hdr = {"alg": alg, "typ": "at+jwt"}
            if kid is not None:
                hdr["kid"] = kid
            for kind, pl in (("client_assertion", b'{"iss":"cj","sub":"cj"}'), ("jwt_bearer", b'{"iss":"c1","sub":"1"}'), ("rfc9068", b'{"iss":"x"}')):
                for sig in (b"s" * 64, b"s" * 256):
                    out.append((kind, b64(_json.dumps(hdr).encode()) + "." + b64(pl) + "." + b64(sig)))
    for over in ({"sub": DROP}, {"iss": DROP}, {"sub": 5}, {"iss": ["cj"]}, {"aud": DROP}, {"aud": 5}, {"aud": [5]}, {"exp": "x"}, {"exp": DROP}, {"exp": True}, {"jti": DROP}, {"jti": 5},
                 {"jti": {"a": 1}}, {"sub": "ghost", "iss": "ghost"}, {"sub": "c1", "iss": "c1"}, {"iat": "x"}, {"nbf": "x"}, {"sub": "é", "iss": "é"}, {"sub": "\"", "iss": "\""}):
        out.append(("client_assertion", client_assertion(**over)))
    # correctly signed RFC 9068 access tokens in which one claim is retyped (wrong JSON types, nested containers, SCIM-style objects)
    _, header, payload, key = c10.craft([], want_parts=True)
    for claim in ("scope", "groups", "roles", "entitlements", "aud", "amr", "auth_time", "client_id", "sub", "jti", "iss", "exp", "iat", "acr"):
        for val in ([{}], [{"display": "x"}], [{"value": "a"}, {"$ref": "b"}], {"a": 1}, [[1]], [None], 5, True, None, "", [], ["a", 5], [["a"]], 1.5, "\"", ["é"]):
            out.append(("rfc9068", JsonWebSignature().serialize_compact(header, _json.dumps(dict(payload, **{claim: val})).encode(), key).decode()))
    return out


_FLASK = {}


def flask_app():
    """a Flask app whose view is guarded by the Flask integration's ResourceProtector over the in-memory token store"""
    if "app" in _FLASK:
        return _FLASK["app"]
    from flask import Flask, jsonify
    from authlib.integrations.flask_oauth2 import ResourceProtector, current_token
    from authlib.oauth2.rfc6750 import BearerTokenValidator
    w = world2()

    class V(BearerTokenValidator):
        def authenticate_token(self, token_string):
            for t in w.store.tokens:
                if t.access_token == token_string:
                    return t
    require_oauth = ResourceProtector()
    require_oauth.register_token_validator(V())
    app = Flask("c20")
    app.config["PROPAGATE_EXCEPTIONS"] = True

    @app.route("/r")
    @require_oauth("a")
    def r():
        return jsonify(ok=True, token=current_token.access_token)
    _FLASK["app"] = app
    return app


def call_flask_rp(auth):
    app = flask_app()
    try:
        headers = {} if auth is None else {"Authorization": auth}
        resp = app.test_client().get("/r", headers=headers)
    except (UnicodeEncodeError, ValueError) as e:
        if "/werkzeug/" in "".join(__import__("traceback").format_tb(e.__traceback__)[-1:]):
            return {"kind": "response", "status": 400, "error": "invalid_request", "description": "", "headers": {}, "body": {}, "transport_refused": True}
        return {"kind": "raised", "exc": type(e).__name__, "site": site_of(e), "msg": str(e)[:120]}
    except Exception as e:
        return {"kind": "raised", "exc": type(e).__name__, "site": site_of(e), "msg": str(e)[:120]}
    body = resp.get_json(silent=True) or {}
    return {"kind": "response", "status": resp.status_code, "error": body.get("error"), "description": body.get("error_description") or "",
            "headers": {"WWW-Authenticate": resp.headers.get("WWW-Authenticate")}, "body": {}}


def flask1_app():
    """Flask integration of the OAuth 1 provider (flask_oauth1.AuthorizationServer + ResourceProtector) on a dict cache"""
    if "app1" in _FLASK:
        return _FLASK["app1"]
    from flask import Flask, jsonify
    from authlib.integrations.flask_oauth1 import AuthorizationServer, ResourceProtector, current_credential
    from authlib.integrations.flask_oauth1.cache import register_nonce_hooks, register_temporary_credential_hooks, create_exists_nonce_func
    from authlib.oauth1.rfc5849.errors import OAuth1Error

    class Cache:
        def __init__(self): self.d = {}
        def get(self, k): return self.d.get(k)
        def set(self, k, v, timeout=None): self.d[k] = v
        def delete(self, k): self.d.pop(k, None)
        def has(self, k): return k in self.d
    cache = Cache()
    clients = {"ca": mem1.Client1("ca", "secret-a", "https://a/cb", None)}
    tokens = {}
    app = Flask("c20-oauth1")
    app.config["PROPAGATE_EXCEPTIONS"] = True
    app.config["OAUTH1_SUPPORTED_SIGNATURE_METHODS"] = ["HMAC-SHA1", "PLAINTEXT"]
    server = AuthorizationServer(app, query_client=lambda cid: clients.get(cid))
    register_nonce_hooks(server, cache)
    register_temporary_credential_hooks(server, cache)
    server.register_hook("create_token_credential", lambda token, temp: tokens.setdefault(token["oauth_token"], mem1.TokenCred(token["oauth_token"], token["oauth_token_secret"], temp.get_client_id(), 1)))
    require_oauth = ResourceProtector(app, query_client=lambda cid: clients.get(cid), query_token=lambda cid, tok: tokens.get(tok),
                                      exists_nonce=create_exists_nonce_func(cache))

    @app.route("/initiate", methods=["GET", "POST"])
    def initiate():
        return server.create_temporary_credentials_response()

    @app.route("/authorize", methods=["GET", "POST"])
    def authorize():
        try:
            return server.create_authorization_response(grant_user=ms.User(1))
        except OAuth1Error as e:          # "authorize endpoint should try catch this error"
            return jsonify(dict(e.get_body())), e.status_code

    @app.route("/token", methods=["GET", "POST"])
    def token():
        return server.create_token_response()

    @app.route("/r", methods=["GET", "POST"])
    @require_oauth()
    def r():
        return jsonify(ok=True)
    _FLASK["app1"] = app
    return app


def call_flask1(ep, method, query, form, auth):
    app = flask1_app()
    try:
        headers = {} if auth is None else {"Authorization": auth}
        resp = app.test_client().open("/" + ep + (("?" + query) if query else ""), method=method, data=form, headers=headers, base_url="https://sp.example")
    except Exception as e:
        tb = "".join(__import__("traceback").format_tb(e.__traceback__)[-1:])
        if "/werkzeug/" in tb and isinstance(e, (UnicodeEncodeError, ValueError)):
            return {"kind": "response", "status": 400, "error": "invalid_request", "description": "", "headers": {}, "body": {}, "transport_refused": True}
        return {"kind": "raised", "exc": type(e).__name__, "site": site_of(e), "msg": str(e)[:120]}
    from urllib.parse import parse_qsl
    body = dict(parse_qsl(resp.get_data(as_text=True))) if "json" not in (resp.content_type or "") else (resp.get_json(silent=True) or {})
    return {"kind": "response", "status": resp.status_code, "error": body.get("error"), "description": body.get("error_description") or "", "headers": {}, "body": {}}


def world_oidc():
    ms.install_clock(); CLOCK.now = 1_000_000
    store, srv, rp = ms.build(oidc=True)
    for cid, sec, m, sc, uris in H.CLIENTS:
        store.clients[cid] = ms.Client(cid, sec, uris, "openid " + sc, ms.ALL_GRANT_TYPES, ms.ALL_RESPONSE_TYPES, m)
    return store, srv


OIDC_BASE = {"response_type": "code id_token", "client_id": "c1", "redirect_uri": "https://c1/cb", "scope": "openid a", "state": "st", "nonce": "n1", "max_age": "10", "prompt": "none",
             "display": "page", "claims": "{}", "id_token_hint": "x", "login_hint": "u", "acr_values": "1", "ui_locales": "en", "request": "a.b.c", "request_uri": "https://x/y",
             "response_mode": "fragment"}


def call_resource(w, auth, required=None):
    class R:
        headers = {} if auth is None else {"Authorization": auth}
    return observe(lambda: (w.rp.validate_request(required, R), type("T", (), {"status": 200, "body": {}, "headers": {}})())[1])


# ---- OAuth 1 --------------------------------------------------------------------------------------
def world1():
    from props import c12
    w = c12.World1(["HMAC-SHA1", "PLAINTEXT"])
    S = lambda c, ts, n: {"method": "HMAC-SHA1", "timestamp": str(c12.NOW0), "nonce": n, "signed_with": [c12.SECRETS[c], ts]}
    w.step(dict({"op": "initiate", "client": "ca", "callback": "oob", "callback_valid": False}, **S("ca", "", "i1")))
    w.step({"op": "authorize", "token": "tmp1", "user": 1})
    return w, c12


OAUTH1_HEADERS = ["OAuth garbage", "OAuth ", "OAuth oauth_consumer_key", 'OAuth oauth_consumer_key="ca', 'OAuth oauth_consumer_key="ca", oauth_consumer_key="cb"', "OAuth é=\"1\"",
                  'OAuth oauth_consumer_key="%zz"', 'OAuth oauth_consumer_key="ca", oauth_signature_method="HMAC-SHA1", oauth_timestamp="x", oauth_nonce="n", oauth_signature="s"',
                  'OAuth oauth_consumer_key="ca", oauth_signature_method="RSA-SHA1", oauth_timestamp="1000000", oauth_nonce="n9", oauth_signature="!!!"',
                  'OAuth oauth_consumer_key="ca", oauth_signature_method="HMAC-SHA1", oauth_timestamp="1000000", oauth_nonce="n8", oauth_signature="é"',
                  "Basic x", "", 'OAuth realm="a", oauth_consumer_key="ca"', 'OAuth oauth_consumer_key="ca", oauth_token="tmp1", oauth_verifier="' + "\x00" + '"']


def call_oauth1(w, endpoint, header, query="", body=None, method="POST", host=None, authority="sp.example"):
    uri = f"https://{authority}/{endpoint}" + (("?" + query) if query else "")
    h = {} if header is None else {"Authorization": header}
    if host is not None:
        h["Host"] = host
    if body is not None:
        h["Content-Type"] = "application/x-www-form-urlencoded"
    if endpoint == "initiate":
        return observe(lambda: w.srv.create_temporary_credentials_response((method, uri, body, h)))
    if endpoint == "token":
        return observe(lambda: w.srv.create_token_response((method, uri, body, h)))
    if endpoint == "authorize":
        return observe(lambda: w.srv.create_authorization_response((method, uri, body, h), ms.User(1)))
    return observe(lambda: (w.rp.validate_request(method, uri, body, h), type("T", (), {"status": 200, "payload": {}, "headers": {}})())[1])


# ---- JOSE -----------------------------------------------------------------------------------------
def b64(b):
    return base64.urlsafe_b64encode(b).rstrip(b"=").decode()


JOSE_KEY = {"kty": "oct", "k": b64(b"0123456789abcdef0123456789abcdef"), "kid": "k1"}
SEG_POOL = ["", "!!!", "A", "AA", b64(b"{"), b64(b"[]"), b64(b"5"), b64(b"null"), b64(b'"str"'), b64(b"\xff\xfe"), b64(b'{"alg":5}'), b64(b'{"alg":["HS256"]}'), b64(b'{"alg":null}'),
            b64(b'{"alg":"HS256","crit":5}'), b64(b'{"alg":"HS256","kid":{"a":1}}'), b64(b'{"alg":"HS256","b64":false}'), b64(b'{"alg":"nope"}'), b64(b'{"alg":"none"}'),
            b64(b'{"typ":5,"alg":"HS256"}'), "é", "a.b", "=" * 4, b64(b'{"alg":"HS256","zip":"DEF"}'), b64(b'{"alg":"dir","enc":"A128GCM"}'), b64(b'{"alg":"dir","enc":5}'),
            b64(b'{"alg":"A128KW","enc":"A128GCM","zip":5}'), b64(b"{}"), b64(b'{"alg":"HS256","kid":"unknown"}'), LONG]


_FAMILY_KEYS = {}


def family_key(kty, form):
    from authlib.jose import JsonWebKey, KeySet, OctKey
    if not _FAMILY_KEYS:
        _FAMILY_KEYS["oct"] = OctKey.import_key(b"0123456789abcdef0123456789abcdef", {"kid": "k1"})
        _FAMILY_KEYS["RSA"] = JsonWebKey.generate_key("RSA", 2048, {"kid": "k1"}, is_private=True)
        _FAMILY_KEYS["EC"] = JsonWebKey.generate_key("EC", "P-256", {"kid": "k1"}, is_private=True)
        _FAMILY_KEYS["OKP"] = JsonWebKey.generate_key("OKP", "Ed25519", {"kid": "k1"}, is_private=True)
        _FAMILY_KEYS["OKPX"] = JsonWebKey.generate_key("OKP", "X25519", {"kid": "k1"}, is_private=True)
    k = _FAMILY_KEYS[kty]
    if form == "obj":
        return k
    if form == "dict":
        return dict(k.as_dict(is_private=True))
    if form == "keyset":
        return KeySet([k])
    if form == "jwks_dict":
        return {"keys": [dict(k.as_dict(is_private=True))]}
    return k.as_pem(is_private=True)


HDR_MEMBERS = ["alg", "enc", "zip", "kid", "typ", "cty", "crit", "jwk", "jku", "x5c", "x5t", "epk", "apu", "apv", "iv", "tag", "p2s", "p2c", "b64", "skid"]
HDR_VALUES = [5, None, [], {}, "", "é", True, 1.5, [1], {"a": 1}, ["x"], "A", "!!!", [["exp"]], [{}], [None], [True, "x"], {"a": ["b"]}]
FUZZ_ALGS = {"jws": [("HS256", "oct"), ("RS256", "RSA"), ("PS256", "RSA"), ("ES256", "EC"), ("EdDSA", "OKP")],
             "jwe": [("dir", "oct16"), ("A128KW", "oct16"), ("A128GCMKW", "oct16"), ("RSA-OAEP", "RSA"), ("RSA1_5", "RSA"), ("ECDH-ES", "EC"), ("ECDH-ES+A128KW", "EC"),
                     ("ECDH-ES", "OKPX"), ("ECDH-ES+A128KW", "OKPX")]}


def hdr_fuzz_cases(tier):
    out = []
    for kind, algs in FUZZ_ALGS.items():
        for alg, kty in algs:
            for m in HDR_MEMBERS:
                for vi, v in enumerate(HDR_VALUES):
                    for ser in ("compact", "json"):
                        if tier == "quick" and ser == "json" and (vi + len(m)) % 3:
                            continue
                        out.append({"t": "jose", "api": "hdr_fuzz", "kind": kind, "alg": alg, "kty": kty, "member": m, "value": v, "ser": ser, "arg": None})
    return out


def hdr_fuzz_call(c):
    """a token made by the library, its (protected) header rewritten with one member replaced, handed back to the library"""
    from authlib.jose import JsonWebSignature, JsonWebEncryption, OctKey
    family_key("oct", "obj")
    _FAMILY_KEYS.setdefault("oct16", OctKey.import_key(b"0123456789abcdef", {"kid": "k1"}))
    key = _FAMILY_KEYS[c["kty"]]
    def rewrite(seg):
        h = json.loads(base64.urlsafe_b64decode(seg + "=" * (-len(seg) % 4)))
        h[c["member"]] = c["value"]
        return b64(json.dumps(h).encode())
    if c["kind"] == "jws":
        J = JsonWebSignature()
        if c["ser"] == "compact":
            t = J.serialize_compact({"alg": c["alg"], "kid": "k1"}, b"payload", key).decode()
            a, b, s_ = t.split(".")
            return lambda: J.deserialize_compact(".".join([rewrite(a), b, s_]), key)
        o = J.serialize_json({"protected": {"alg": c["alg"]}, "header": {"kid": "k1"}}, b"payload", key)
        variants = [dict(o, protected=rewrite(o["protected"])), dict(o, header=dict(o["header"], **{c["member"]: c["value"]}))]
        return lambda: [J.deserialize_json(v, key) for v in variants]
    J = JsonWebEncryption()
    hdr = {"alg": c["alg"], "enc": "A128GCM"}
    if c["ser"] == "compact":
        t = J.serialize_compact(hdr, b"plaintext", key).decode()
        parts = t.split(".")
        return lambda: J.deserialize_compact(".".join([rewrite(parts[0])] + parts[1:]), key)
    o = J.serialize_json({"protected": hdr, "unprotected": {"kid": "k1"}, "recipients": [{"header": {"x": "y"}}]}, b"plaintext", key)
    v1 = dict(o, protected=rewrite(o["protected"]))
    v2 = dict(o, unprotected=dict(o["unprotected"], **{c["member"]: c["value"]}))
    v3 = dict(o, recipients=[dict(o["recipients"][0], header=dict(o["recipients"][0].get("header") or {}, **{c["member"]: c["value"]}))])
    def run():
        errs = []
        for v in (v1, v2, v3):
            try:
                J.deserialize_json(v, key)
            except (ValueError, ) as e:
                errs.append(e)
            except Exception as e:
                from authlib.jose.errors import JoseError
                from cryptography.exceptions import InvalidTag
                from cryptography.hazmat.primitives.keywrap import InvalidUnwrap
                if isinstance(e, (JoseError, InvalidTag, InvalidUnwrap)):
                    errs.append(e)
                else:
                    raise
        if errs:
            raise errs[0]
    return run


def jose_call(api, arg, kty=None, form=None, case=None):
    from authlib.jose import JsonWebSignature, JsonWebEncryption, JsonWebToken, JsonWebKey, KeySet
    from authlib.jose.errors import JoseError
    key = JsonWebKey.import_key(JOSE_KEY)
    try:
        if api == "hdr_fuzz":
            hdr_fuzz_call(case)()
        elif api == "alg_family":
            k = family_key(kty, form)
            if form in ("keyset", "jwks_dict"):
                JsonWebToken(list(JsonWebSignature.ALGORITHMS_REGISTRY)).decode(arg, k)
            else:
                JsonWebSignature().deserialize_compact(arg, k)
        elif api == "alg_family_jwe":
            JsonWebEncryption().deserialize_compact(arg, family_key(kty, form))
        elif api == "nokey":
            # the token names a key the application does not have: its resolver answers None (or the application passes None)
            how, what = form
            k = None if how == "none" else (lambda h, p: None)
            if what == "jws":
                JsonWebSignature().deserialize_compact(arg, k)
            elif what == "jws_json":
                JsonWebSignature().deserialize_json(arg, k)
            elif what == "jwt":
                JsonWebToken(["HS256", "RS256", "ES256"]).decode(arg, k)
            else:
                JsonWebEncryption().deserialize_compact(arg, k)
        elif api == "jws_compact":
            JsonWebSignature().deserialize_compact(arg, key)
        elif api == "jws_json":
            JsonWebSignature().deserialize_json(arg, key)
        elif api == "jwt":
            c = JsonWebToken(["HS256"]).decode(arg, key); c.validate()
        elif api == "jwt_keyset":
            c = JsonWebToken(["HS256"]).decode(arg, KeySet([key])); c.validate()
        elif api == "jwt_jwks_dict":
            c = JsonWebToken(["HS256"]).decode(arg, {"keys": [JOSE_KEY]}); c.validate()
        elif api == "jwe_compact":
            JsonWebEncryption().deserialize_compact(arg, key)
        elif api == "jwe_json":
            JsonWebEncryption().deserialize_json(arg, key)
        return {"kind": "ok"}
    except JoseError as e:
        return {"kind": "jose_error", "error": e.error}
    except Exception as e:
        return {"kind": "raised", "exc": "ValueError" if isinstance(e, ValueError) else type(e).__name__, "exc_type": type(e).__name__, "site": site_of(e), "msg": str(e)[:120]}


def valid_jws():
    from authlib.jose import jwt
    return jwt.encode({"alg": "HS256", "kid": "k1"}, {"iss": "i", "sub": "s", "exp": CLOCK.now + 600 if hasattr(CLOCK, "now") else 2_000_000_000}, JOSE_KEY).decode()


# ---- cases ----------------------------------------------------------------------------------------
def cases(rng, tier):
    out = errobj_cases()
    npairs = 40 if tier == "quick" else 1500
    for name, (kind, base, hdr) in OAUTH2_ENDPOINTS.items():
        out.append({"t": "oauth2", "ep": name, "form": dict(base), "headers": dict(hdr), "via": "form"})
        for k in base:
            for v in HOSTILE + HOSTILE_NONSTR:
                out.append({"t": "oauth2", "ep": name, "form": dict(base, **{k: v}), "headers": dict(hdr), "via": "form", "mut": k})
            out.append({"t": "oauth2", "ep": name, "form": {x: y for x, y in base.items() if x != k}, "headers": dict(hdr), "via": "form", "mut": "-" + k})
        for a in HOSTILE_AUTH:
            out.append({"t": "oauth2", "ep": name, "form": dict(base), "headers": {"Authorization": a}, "via": "form", "mut": "Authorization"})
        # a server that declares its supported scopes: every hostile scope value is then an unsupported scope
        if "scope" in base:
            for v in HOSTILE:
                for fw in (None, "flask", "django"):
                    out.append({"t": "oauth2", "ep": name, "form": dict(base, scope=v), "headers": dict(hdr), "via": "form", "mut": "scope", "supported": ["a", "b"], **({"fw": fw} if fw else {})})
        # the same endpoint behind the Flask and Django integrations (their request wrappers see the hostile values first)
        for fw in ("flask", "django"):
            out.append({"t": "oauth2", "ep": name, "form": dict(base), "headers": dict(hdr), "via": "form", "fw": fw})
            for k in base:
                for v in HOSTILE:
                    out.append({"t": "oauth2", "ep": name, "form": dict(base, **{k: v}), "headers": dict(hdr), "via": "form", "mut": k, "fw": fw})
                out.append({"t": "oauth2", "ep": name, "form": {x: y for x, y in base.items() if x != k}, "headers": dict(hdr), "via": "form", "mut": "-" + k, "fw": fw})
            for a in HOSTILE_AUTH:
                out.append({"t": "oauth2", "ep": name, "form": dict(base), "headers": {"Authorization": a}, "via": "form", "mut": "Authorization", "fw": fw})
        for via in ("query", "rawquery"):
            for k in base:
                for v in HOSTILE:
                    out.append({"t": "oauth2", "ep": name, "form": dict(base, **{k: v}), "headers": dict(hdr), "via": via, "mut": k})
        # the request body is a JSON document (Content-Type: application/json) whose members have the wrong JSON type — through the Flask and Django request wrappers
        for fw in ("flask", "django"):
            for k in list(base) + ["code_verifier", "client_assertion", "client_assertion_type", "client_id", "client_secret", "redirect_uri"]:
                for v in ([1], {"a": 1}, 5, True, None, ["x", "y"], 1.5, ""):
                    out.append({"t": "oauth2", "ep": name, "form": dict(base, **{k: v}), "headers": dict(hdr), "via": "json", "mut": k + ":json", "fw": fw})
        for extra in ("grant_type", "response_type", "client_id", "client_secret", "request", "request_uri", "id_token_hint", "login_hint", "display", "claims", "resource",
                      "client_assertion", "client_assertion_type"):
            for v in HOSTILE[:12]:
                out.append({"t": "oauth2", "ep": name, "form": dict(base, **{extra: v}), "headers": dict(hdr), "via": "form", "mut": "+" + extra})
        keys = list(base)
        for _ in range(npairs):
            k1, k2 = rng.choice(keys), rng.choice(keys + ["Authorization"])
            form = dict(base, **{k1: rng.choice(HOSTILE)})
            h = dict(hdr)
            if k2 == "Authorization":
                h["Authorization"] = rng.choice(HOSTILE_AUTH)
            else:
                form[k2] = rng.choice(HOSTILE)
            out.append({"t": "oauth2", "ep": name, "form": form, "headers": h, "via": rng.choice(["form", "form", "query"]), "mut": "pair"})
    for a in HOSTILE_AUTH + [None, "Bearer at2", "Bearer rt3", "Bearer at999"]:
        for req in (None, ["a"], ["z"], "a b"):
            out.append({"t": "resource2", "auth": a, "required": req})
        out.append({"t": "flask_rp", "auth": a})
    for ep in ("initiate", "token", "authorize", "r"):
        for h in OAUTH1_HEADERS + [None]:
            for method in ("GET", "POST"):
                out.append({"t": "flask1", "ep": ep, "method": method, "query": "", "form": None, "auth": h})
        for v in HOSTILE:
            for pname in ("oauth_consumer_key", "oauth_token", "oauth_signature_method", "oauth_timestamp", "oauth_nonce", "oauth_signature", "oauth_callback", "oauth_verifier"):
                base = {"oauth_consumer_key": "ca", "oauth_token": "tmp1", "oauth_signature_method": "PLAINTEXT", "oauth_timestamp": "1000000", "oauth_nonce": "nn",
                        "oauth_signature": "secret-a&", "oauth_callback": "oob", "oauth_verifier": "v"}
                base[pname] = v
                from urllib.parse import urlencode
                out.append({"t": "flask1", "ep": ep, "method": "POST", "query": "", "form": base, "auth": None})
                out.append({"t": "flask1", "ep": ep, "method": "GET", "query": urlencode(base), "form": None, "auth": None})
        for raw in ("a=%zz", "a b=c", "oauth_token=tmp1&oauth_token=tmp1", "=", "&&", "%"):
            out.append({"t": "flask1", "ep": ep, "method": "GET", "query": raw, "form": None, "auth": None})
    for rt in ("code", "code id_token", "id_token", "id_token token", "code token", "code id_token token", "token"):
        for k in OIDC_BASE:
            for v in HOSTILE:
                out.append({"t": "oidc_authorize", "form": dict(OIDC_BASE, **({"response_type": rt, k: v} if k != "response_type" else {k: v}))})
    # registration / configuration
    for k, vals in __import__("props.c18", fromlist=["x"]).REG_POOL.items():
        for v in vals + HOSTILE[:10]:
            out.append({"t": "register", "payload": dict(__import__("props.c18", fromlist=["x"]).REG_BASE, **{k: v})})
    c18 = __import__("props.c18", fromlist=["x"])
    for k, vals in c18.oidc_pool().items():
        for v in vals + HOSTILE[:6]:
            out.append({"t": "register", "payload": dict(c18.REG_BASE, **{k: v}), "oidc": True})
    for p in (None, [], "x", 5, {"jwks": {"keys": [{"kty": "oct"}]}}, {"jwks": {"keys": "x"}}, {"jwks": 5}, {"software_statement": "a.b.c"}, {"software_statement": 5}):
        out.append({"t": "register", "payload": p})
    for p in ({"client_id": 5}, {"client_id": "client1", "client_secret": ["x"]}, {"client_id": "client1", "redirect_uris": 5}, None, [], {"client_id": "client1", "scope": 5},
              {"client_id": "client1", "jwks": "x"}, {"client_id": "client1", "contacts": 5}, {"client_id": ["client1"]}):
        for m in ("PUT", "GET", "DELETE", "POST", "PATCH"):
            out.append({"t": "configure", "payload": p, "method": m})
    # OAuth 1
    for ep in ("initiate", "token", "authorize", "resource"):
        for h in OAUTH1_HEADERS + [None]:
            out.append({"t": "oauth1", "ep": ep, "header": h, "query": "", "body": None})
        for v in HOSTILE:
            for pname in ("oauth_consumer_key", "oauth_token", "oauth_signature_method", "oauth_timestamp", "oauth_nonce", "oauth_signature", "oauth_callback", "oauth_verifier", "oauth_version"):
                base = {"oauth_consumer_key": "ca", "oauth_token": "tmp1", "oauth_signature_method": "PLAINTEXT", "oauth_timestamp": "1000000", "oauth_nonce": "nn",
                        "oauth_signature": "secret-a&tsec2", "oauth_callback": "oob", "oauth_verifier": "ver3"}
                base[pname] = v
                from urllib.parse import urlencode
                try:
                    q = urlencode(base, errors="surrogatepass")
                except Exception:
                    continue
                out.append({"t": "oauth1", "ep": ep, "header": None, "query": q, "body": None, "mut": pname})
                out.append({"t": "oauth1", "ep": ep, "header": None, "query": "", "body": base, "mut": pname})
        for raw in ("a=%zz", "é=1", "a b=c", "oauth_token=tmp1&oauth_token=tmp1", "=", "&&", "a=b=c"):
            out.append({"t": "oauth1", "ep": ep, "header": None, "query": raw, "body": None, "mut": "rawquery"})
        # the authority the base string is built from is the client's Host header (else the request URI): hostile values with a base-string signature method
        for sm in ("HMAC-SHA1", "RSA-SHA1"):
            base = {"oauth_consumer_key": "ca", "oauth_token": "tmp1", "oauth_signature_method": sm, "oauth_timestamp": "1000000", "oauth_nonce": "nh",
                    "oauth_signature": "AAAA", "oauth_callback": "oob", "oauth_verifier": "ver3"}
            for hv in ("a:b:c", "sp.example:80:80", "[::1]", "[::1]:8443", ":", "::", "sp.example:", ":443", "sp.example:é", "é.example", "sp.example:443:", "a b", "", "\"", "%zz:%zz", LONG):
                out.append({"t": "oauth1", "ep": ep, "header": None, "query": "", "body": base, "mut": "host", "host": hv})
            # escapes that decode to another escape (double encoding) or to octets that are not UTF-8, where the base string is built
            from urllib.parse import urlencode as _ue
            for pname in ("oauth_consumer_key", "oauth_token", "oauth_nonce", "oauth_timestamp", "oauth_callback", "oauth_verifier", "oauth_version", "x"):
                for v in ("%ff", "%25ff", "%FF%FE", "%25FF%25FE", "%zz", "%25zz", "%25", "%c3%28", "%25c3%2528"):
                    b2 = dict(base, **{pname: v})
                    out.append({"t": "oauth1", "ep": ep, "header": None, "query": "", "body": b2, "mut": pname + ":escape"})
                    out.append({"t": "oauth1", "ep": ep, "header": None, "query": _ue(b2), "body": None, "mut": pname + ":escape"})
                    out.append({"t": "oauth1", "ep": ep, "header": "OAuth " + ", ".join(f'{k}="{_ue({"": x})[1:]}"' for k, x in b2.items() if k.startswith("oauth_")), "query": "", "body": None, "mut": pname + ":escape"})
            for au in ("[::1]", "[::1]:8443", "sp.example:", "sp.example:443", "user:pw@sp.example", "user:pw@sp.example:443"):
                out.append({"t": "oauth1", "ep": ep, "header": None, "query": "", "body": base, "mut": "authority", "authority": au})
    for kind, tok in jwt_endpoint_tokens():
        out.append({"t": "jwt_endpoint", "ep": kind, "token": tok})
    # unknown key ids: the application's key resolver has no key for the kid the token names (answers None), or the application passes None
    from authlib.jose import JsonWebSignature as _J, JsonWebEncryption as _E, JsonWebKey as _K
    for alg, kty in (("HS256", "oct"), ("RS256", "RSA"), ("ES256", "EC")):
        fk = family_key(kty, "obj")
        for with_jwk in (False, True):
            hdr = {"alg": alg, "kid": "no-such-kid"}
            if with_jwk and kty != "oct":
                hdr["jwk"] = dict(fk.as_dict())
            t = _J().serialize_compact(hdr, b'{"iss":"i"}', fk).decode()
            for how in ("resolver", "none"):
                if how == "none" and with_jwk:
                    continue          # (a token's own jwk header is the documented fallback when the application passes no key at all)
                for what in ("jws", "jwt"):
                    out.append({"t": "jose", "api": "nokey", "form": [how, what], "arg": t})
                out.append({"t": "jose", "api": "nokey", "form": [how, "jws_json"], "arg": _J().serialize_json({"protected": hdr}, b"payload", fk)})
    for alg, kty in (("dir", "oct"), ("A256KW", "oct"), ("RSA-OAEP", "RSA"), ("ECDH-ES", "EC")):
        t = _E().serialize_compact({"alg": alg, "enc": "A256GCM" if alg != "dir" else "A128CBC-HS256", "kid": "no-such-kid"}, b"x", family_key(kty, "obj")).decode()
        for how in ("resolver", "none"):
            out.append({"t": "jose", "api": "nokey", "form": [how, "jwe"], "arg": t})
    # JOSE
    tok = valid_jws()
    segs = tok.split(".")
    for api in ("jws_compact", "jwt", "jwt_keyset", "jwt_jwks_dict"):
        out.append({"t": "jose", "api": api, "arg": tok})
        for i in range(3):
            for s in SEG_POOL:
                parts = list(segs); parts[i] = s
                out.append({"t": "jose", "api": api, "arg": ".".join(parts)})
        for arg in ("", "a", "a.b", "a.b.c.d", "..", tok + ".", "." + tok, tok.replace(".", ".."), "é.é.é", LONG):
            out.append({"t": "jose", "api": api, "arg": arg})
    # the header names every registered algorithm in turn against every kind and form of verification key
    from authlib.jose import JsonWebSignature, JsonWebEncryption
    for kty in ("oct", "RSA", "EC", "OKP"):
        for form in ("obj", "dict", "keyset", "jwks_dict", "pem"):
            if kty == "oct" and form == "pem":
                continue
            for alg in sorted(JsonWebSignature.ALGORITHMS_REGISTRY):
                hdr = b64(json.dumps({"alg": alg, "kid": "k1"}).encode())
                out.append({"t": "jose", "api": "alg_family", "kty": kty, "form": form, "arg": hdr + "." + b64(b'{"iss":"i"}') + "." + b64(b"s" * 64)})
            if form in ("obj", "dict", "pem"):
                for alg in sorted(JsonWebEncryption.ALG_REGISTRY):
                    hdr = b64(json.dumps({"alg": alg, "enc": "A128GCM", "kid": "k1", "epk": {"kty": "EC", "crv": "P-256", "x": "AA", "y": "AA"}}).encode())
                    out.append({"t": "jose", "api": "alg_family_jwe", "kty": kty, "form": form,
                                "arg": ".".join([hdr, b64(b"k" * 40), b64(b"0" * 12), b64(b"ct"), b64(b"t" * 16)])})
    # ECDH-ES: the sender's ephemeral key and the PartyU / PartyV values come from the (attacker-written) header
    EPKS = [DROP, 5, "x", [], {}, None, {"kty": "EC"}, {"kty": "EC", "crv": "P-999", "x": "AA", "y": "AA"}, {"kty": "EC", "crv": "P-256", "x": 5, "y": "AA"},
            {"kty": "EC", "crv": "P-256", "x": "!!!", "y": "AA"}, {"kty": "EC", "crv": "P-256", "x": "AQ", "y": "AQ"}, {"kty": "EC", "crv": "P-384", "x": "AQ", "y": "AQ"},
            {"kty": "EC", "crv": 5, "x": "AA", "y": "AA"}, {"kty": "EC", "crv": ["P-256"], "x": "AA", "y": "AA"}, {"kty": "OKP", "crv": "Ed25519", "x": "AA"},
            {"kty": "OKP", "crv": "X25519", "x": "AA"}, {"kty": "OKP", "crv": "X25519", "x": b64(b"x" * 32)}, {"kty": "OKP", "crv": "X448", "x": b64(b"x" * 56)},
            {"kty": "OKP", "crv": "P-256", "x": "AA"}, {"kty": "OKP", "crv": "X25519", "x": 5}, {"kty": "OKP", "crv": "X25519"}, {"kty": "oct", "k": "AA"},
            {"kty": "EC", "crv": "P-256", "x": "é", "y": "é"}, {"crv": "P-256", "x": "AA", "y": "AA"}, {"kty": "RSA", "n": "AQ", "e": "AQAB"}]
    for kty in ("EC", "OKPX"):
        for alg in ("ECDH-ES", "ECDH-ES+A128KW"):
            for epk in EPKS:
                for extra in ({}, {"apu": 5}, {"apv": "!!!"}, {"apu": ["a"]}):
                    if extra and epk is not EPKS[-9]:
                        continue
                    h = dict({"alg": alg, "enc": "A128GCM"}, **extra)
                    if epk is not DROP:
                        h["epk"] = epk
                    out.append({"t": "jose", "api": "alg_family_jwe", "kty": kty, "form": "obj",
                                "arg": ".".join([b64(json.dumps(h).encode()), b64(b"k" * 24) if "KW" in alg else "", b64(b"0" * 12), b64(b"ct"), b64(b"t" * 16)])})
    # every header member retyped, on tokens the library itself produced for each algorithm family
    out += hdr_fuzz_cases(tier)
    # A*GCMKW: the key-wrapping iv and tag come from the header
    for extra in ({}, {"iv": 5}, {"iv": "!!!", "tag": "AA"}, {"iv": b64(b"0" * 12)}, {"iv": b64(b"0" * 12), "tag": 5}, {"iv": b64(b"0" * 12), "tag": None},
                  {"iv": None, "tag": b64(b"t" * 16)}, {"iv": [1], "tag": [2]}, {"iv": b64(b"0" * 3), "tag": b64(b"t" * 16)}, {"iv": b64(b"0" * 12), "tag": b64(b"t" * 3)},
                  {"iv": "é", "tag": "é"}, {"iv": {"a": 1}, "tag": {"a": 1}}, {"iv": b64(b"0" * 12), "tag": b64(b"t" * 16)}):
        h = dict({"alg": "A256GCMKW", "enc": "A128GCM"}, **extra)
        out.append({"t": "jose", "api": "alg_family_jwe", "kty": "oct", "form": "obj",
                    "arg": ".".join([b64(json.dumps(h).encode()), b64(b"k" * 16), b64(b"0" * 12), b64(b"ct"), b64(b"t" * 16)])})
    for api in ("jwe_compact",):
        for n in (5,):
            good = [b64(b'{"alg":"dir","enc":"A128GCM"}'), "", b64(b"0" * 12), b64(b"ct"), b64(b"t" * 16)]
            out.append({"t": "jose", "api": api, "arg": ".".join(good)})
            for i in range(5):
                for s in SEG_POOL:
                    parts = list(good); parts[i] = s
                    out.append({"t": "jose", "api": api, "arg": ".".join(parts)})
            for arg in ("", "a.b.c", "a.b.c.d", "....", "a.b.c.d.e.f"):
                out.append({"t": "jose", "api": api, "arg": arg})
    for obj in ({}, {"payload": "x"}, {"payload": b64(b"p"), "signatures": [5]}, {"payload": b64(b"p"), "signatures": [{"protected": 5, "signature": "x"}]},
                {"payload": 5, "signatures": [{"protected": segs[0], "signature": segs[2]}]}, {"payload": segs[1], "protected": segs[0], "signature": 5},
                {"payload": segs[1], "protected": segs[0], "signature": segs[2], "header": 5}, {"payload": segs[1], "signatures": {"a": 1}},
                {"payload": segs[1], "signatures": [{"protected": segs[0], "header": "x", "signature": segs[2]}]}, 5, None, "x", [],
                {"payload": segs[1], "protected": "!!!", "signature": segs[2]}, {"payload": "é", "protected": segs[0], "signature": segs[2]}):
        out.append({"t": "jose", "api": "jws_json", "arg": obj})
    for obj in ({}, {"protected": 5}, {"protected": b64(b'{"alg":"dir","enc":"A128GCM"}'), "iv": 5, "ciphertext": "x", "tag": "y"}, {"protected": "x", "recipients": 5}, 5, None, "x",
                {"protected": b64(b'{"alg":"dir","enc":"A128GCM"}'), "recipients": [5], "iv": "AAAA", "ciphertext": "AAAA", "tag": "AAAA"},
                {"protected": b64(b'{"alg":"dir","enc":"A128GCM"}'), "recipients": [{"header": 5}], "iv": "AAAA", "ciphertext": "AAAA", "tag": "AAAA"},
                {"protected": b64(b'{"alg":"dir","enc":"A128GCM"}'), "unprotected": 5, "recipients": [{}], "iv": "AAAA", "ciphertext": "AAAA", "tag": "AAAA"}):
        out.append({"t": "jose", "api": "jwe_json", "arg": obj})
    return out


def impl(c):
    t = c["t"]
    if t == "errobj":
        return run_errobj(c)
    if t == "oauth2":
        return call_oauth2(world2(c.get("fw"), c.get("supported")), c["ep"], copy.deepcopy(c["form"]), dict(c["headers"]), c.get("via", "form"))
    if t == "resource2":
        return call_resource(world2(), c["auth"], c["required"])
    if t == "flask_rp":
        return call_flask_rp(c["auth"])
    if t == "flask1":
        ms.install_clock(); CLOCK.now = 1_000_000
        return call_flask1(c["ep"], c["method"], c["query"], c["form"], c["auth"])
    if t == "oidc_authorize":
        store, srv = world_oidc()
        return observe(lambda: srv.create_authorization_response(Req("POST", "https://as.example/authorize", dict(c["form"]), {}), grant_user=store.users[1]), endpoint=True)
    if t == "register":
        sm = {"scopes_supported": ["a", "b"], "grant_types_supported": ["authorization_code"], "response_types_supported": ["code"],
              "token_endpoint_auth_methods_supported": ["none", "client_secret_basic"]}
        if c.get("oidc"):
            from authlib.oauth2.rfc7591 import ClientMetadataClaims as C1
            from authlib.oidc.registration import ClientMetadataClaims as C2
            sm.update(__import__("props.c18", fromlist=["x"]).OIDC_METAS[1])
            w = rw.RegWorld(sm, claims_classes=[C1, C2])
        else:
            w = rw.RegWorld(sm)
        o = w.register(copy.deepcopy(c["payload"]))
        return _from_reg(o)
    if t == "configure":
        w = rw.RegWorld({"scopes_supported": ["a", "b"]})
        w.register(dict(__import__("props.c18", fromlist=["x"]).REG_BASE))
        o = w._call("client_configuration", c["method"], "https://as.example/register/client1", copy.deepcopy(c["payload"]), "rat-client1")
        return _from_reg(o)
    if t == "oauth1":
        w, _ = world1()
        return call_oauth1(w, c["ep"], c["header"], c.get("query", ""), c.get("body"), host=c.get("host"), authority=c.get("authority", "sp.example"))
    if t == "jwt_endpoint":
        return call_jwt_endpoint(c["ep"], c["token"])
    if t == "jose":
        ms.install_clock(); CLOCK.now = 1_000_000
        return jose_call(c["api"], c["arg"], c.get("kty"), c.get("form"), c)
    raise AssertionError(t)


def _from_reg(o):
    if "raised" in o:
        return {"kind": "raised", "exc": o["raised"].split(":")[0], "site": o.get("site", "?"), "msg": o["raised"]}
    b = o.get("body") or {}
    return {"kind": "response", "status": o["status"], "error": b.get("error"), "description": b.get("error_description") or "", "headers": {}, "body": {}}


def error_classes():
    import importlib, pkgutil
    import authlib.oauth2, authlib.oidc
    from authlib.oauth2.base import OAuth2Error
    for pkg in (authlib.oauth2, authlib.oidc):
        for m in pkgutil.walk_packages(pkg.__path__, pkg.__name__ + "."):
            try:
                importlib.import_module(m.name)
            except Exception:
                pass
    out = {}
    def walk(c):
        for s_ in c.__subclasses__():
            if s_.__module__.startswith("authlib."):
                out[s_.__name__] = s_
            walk(s_)
    walk(OAuth2Error)
    return out


def errobj_cases():
    import inspect
    out = []
    for name, cls in sorted(error_classes().items()):
        params = list(inspect.signature(cls.__init__).parameters)[1:]
        if "description" not in params:
            continue
        for arg in [None, "plain text", "it's 100% [ok] {x} ~", ""] + HOSTILE:
            out.append({"t": "errobj", "cls": name, "arg": arg})
    return out


def run_errobj(c):
    cls = error_classes()[c["cls"]]
    try:
        e = cls(description=c["arg"])
        status, body, headers = e()
    except ValueError:
        return {"raised": "ValueError"}
    return {"status": status, "error": body.get("error"), "description": body.get("error_description"), "no_store": ("Cache-Control", "no-store") in list(headers)}


def model_line(c):
    if c["t"] == "errobj":
        return {"cls": c["cls"], "arg": c["arg"]}
    return None


def project(c, out):
    return out


def oracle(c, out):
    v = []
    def bad(what, **sig):
        v.append((what, sig))
    if c["t"] == "errobj":
        return v
    ep = c.get("ep") or c.get("api") or c["t"]
    if out["kind"] == "raised" and c["t"] == "jose" and jose_documented(c, out):
        return v
    if out["kind"] == "raised":
        bad(f"{c['t']}/{ep}: {out.get('exc_type', out['exc'])} escaped from {out['site']}: {out['msg']}", kind="crash", endpoint=f"{c['t']}/{ep}" if c["t"] != "oauth2" else "oauth2/" + OAUTH2_ENDPOINTS[ep][0],
            exc=out["exc"], site=out["site"])
        return v
    if c["t"] == "jose":
        return v
    st = out["status"]
    if st is None or not (200 <= st < 600):
        bad(f"{ep}: no HTTP status", kind="no-status"); return v
    if st >= 400 or out.get("error"):
        if out.get("error") not in REGISTERED:
            bad(f"{c['t']}/{ep}: error code {out.get('error')!r} is not a registered error code", kind="unregistered-error", error=str(out.get("error")))
        if c["t"] not in ("oauth1", "flask1") and not desc_ok(out.get("description") or ""):
            bad(f"{c['t']}/{ep}: error_description {out['description'][:60]!r} leaves the RFC 6749 character set", kind="description-charset")
        if st < 400 and not out.get("redirected"):
            bad(f"{c['t']}/{ep}: error {out['error']} answered with status {st}", kind="status-misfit")
        if out.get("error") == "invalid_client" and st not in (400, 401):
            bad(f"{ep}: invalid_client answered with {st}", kind="status-misfit")
        if out.get("error") in ("invalid_token", "missing_authorization") and st != 401 and c["t"] in ("resource2",):
            bad(f"{ep}: {out['error']} answered with {st}", kind="status-misfit")
    elif c["t"] == "oauth2" and OAUTH2_ENDPOINTS[ep][0] == "token":
        b = out["body"]
        if not (isinstance(b.get("access_token"), str) and isinstance(b.get("token_type"), str)):
            bad(f"{ep}: successful token response without access_token / token_type", kind="token-response-shape")
        if out["headers"].get("Cache-Control") != "no-store":
            bad(f"{ep}: successful token response without Cache-Control: no-store", kind="token-response-shape")
    return v


def jose_documented(c, out):
    """exceptions outside JoseError that the library documents / its own tests pin for JOSE calls"""
    if out["exc"] == "ValueError" and out["site"] in ("jose/rfc7517/key_set.py:find_by_kid", "jose/rfc7519/jwt.py:load_key"):
        return True          # "no such key in the set": documented (:raise: ValueError) and relied upon by the client integrations to refetch the JWKS
    if c["api"] == "nokey" and out["exc"] == "ValueError" and out["site"].startswith(("jose/rfc7517/", "jose/rfc7518/", "jose/rfc8037/")):
        return True          # no key: ValueError from the key import, the same family as an unusable key
    if c["api"] == "alg_family" and out["exc"] == "ValueError" and out["site"].startswith(("jose/rfc7517/", "jose/rfc7518/", "jose/rfc8037/")):
        return True          # the verification key cannot be used with the algorithm the header names: ValueError from the key import, as tests/jose/test_jws.py pins
    if c["api"] == "hdr_fuzz":
        lib = out["site"].startswith(("jose/", "common/encoding.py")) or out["site"] == "outside-library"
        if c["kind"] == "jwe":
            return out["exc"] in ("ValueError", "InvalidTag", "InvalidUnwrap", "InvalidKey") and lib
        return out["exc"] == "ValueError" and out["site"].startswith(("jose/rfc7517/", "jose/rfc7518/", "jose/rfc8037/", "jose/rfc7519/jwt.py:load_key"))
    if c["api"].startswith(("jwe", "alg_family_jwe")) and out["exc"] in ("ValueError", "InvalidTag", "InvalidUnwrap", "InvalidKey") and (
            out["site"].startswith(("jose/rfc7518/", "jose/drafts/", "jose/rfc8037/") + (("jose/rfc7517/", "common/encoding.py") if c["api"] == "alg_family_jwe" else ())) or out["site"] == "outside-library"):
        return True          # decryption failures: tests/jose/test_jwe.py asserts ValueError / InvalidUnwrap
    return False


def classify(c, out):
    if c["t"] == "errobj":
        return "errobj/" + ("ValueError" if "raised" in out else "response")
    return f"{c['t']}{'@' + c['fw'] if c.get('fw') else ''}/{c.get('ep') or c.get('api') or ''}/{out['kind']}" + (f"/{out.get('status')}" if out["kind"] == "response" else "")


def nontrivial(c, out):
    return c


def search(breaks, rng, known, match_known):
    for c in cases(rng, "thorough"):
        o = impl(c)
        for what, sig in oracle(c, o):
            if match_known(known, sig) is None:
                return {"what": what, "sig": sig, "case": c, "impl": o}
    return None
