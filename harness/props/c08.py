"""C08 — issued scope ⊆ requested ∩ allowed ∩ supported ∩ originally granted.
Real code: the in-memory provider (memserver) driven through its authorization / token / device endpoints."""
import base64
import itertools
import json
from urllib.parse import urlparse, parse_qsl

import memserver as ms
from memserver import Req, Client, Token, CLOCK

RULE = ("one case = (grant, token generator, server-supported set, client-allowed scope, requested scope, original scope); "
        "non-trivial = distinct case whose request names at least one scope word")
ASSUMPTIONS = ["reference integrator: client.get_allowed_scope is the order-preserving filter of sqla_oauth2.OAuth2ClientMixin",
               "a server whose supported-scope configuration changed after a first request judges each request by the configuration in force (warm-up cases); stored scopes were validated against the set in force when stored"]
TRUSTED = ["memserver.py reference integrator"]

GRANTS = {  # name -> model kind
    "implicit": "direct", "password": "direct", "client_credentials": "direct", "jwt_bearer": "direct", "jwt_bearer_nosub": "direct",
    "authorization_code": "stored", "device_code": "stored", "refresh_token": "refresh",
}
GENS = ["bearer", "jwt7523", "jwt9068"]
U = ["a", "b", "c", "d"]


def scope_strings(rng, tier):
    out = [None, "", "a", "b", "a b", "b a", "a a", "a b c", "a z", "z", "a  b", " a", "a\tb", "d c b a", "a b c d",
           "ab", "profile", "admin profile:read", "c ab",           # scope names that are substrings of other scope names
           "a,b", "c,d a", "a;b", "a+b", "a%20b"]                    # RFC 6749 §3.3: scope tokens are separated by spaces only; ',' ';' '+' '%' are token characters
    if tier == "thorough":
        for r in (1, 2, 3):
            for p in itertools.permutations(U, r):
                out.append(" ".join(p))
        out += ["a b a", "a\nb", "a b", "ab", "A", "a,b"]
    return list(dict.fromkeys(out))


def cases(rng, tier):
    scopes = scope_strings(rng, tier)
    supported = [None, [], ["a"], ["a", "b"], ["a", "b", "c", "d"], ["b", "z"]]
    allowed = ["", "a", "a b", "b c d", "a b c d", "b  a", "ab cd", "profile:read user:admin"]
    allc = []
    for grant in GRANTS:
        for gen in GENS:
            for sup in supported:
                for al in allowed:
                    for rq in scopes:
                        origs = scopes if grant == "refresh_token" else [None]
                        for og in origs:
                            for place in ("form", "query", "both"):
                                if rq is None and place != "form":
                                    continue
                                allc.append({"grant": grant, "gen": gen, "supported": sup, "allowed": al, "requested": rq,
                                             "original": og, "place": place})
    if tier == "thorough":
        n = 60000
    else:
        n = 4000
    if len(allc) > n:
        allc = rng.sample(allc, n)
    # the server's supported-scope configuration changed after it had already served a request (e.g. Flask's init_app sets it late):
    # every request is judged by the configuration in force when it arrives
    warm = []
    for c in rng.sample(allc, min(len(allc), 300 if tier == "quick" else 3000)):
        if c["grant"] in ("client_credentials", "password", "authorization_code", "implicit"):
            warm.append(dict(c, warmup={"supported": rng.choice([None, ["a", "b", "c", "d", "z"], ["z"]]), "requested": rng.choice(["a", "z", "a b"])}))
    # the token request of the code / device flows carries a scope parameter of its own: the issued scope is still the approved one
    tr = []
    for c in allc:
        if c["grant"] in ("authorization_code", "device_code") and len(tr) < (400 if tier == "quick" else 4000):
            tr.append(dict(c, token_scope=rng.choice(["a", "a b", "z", "a b c d"])))
    # histories on ONE provider: tokens issued by the password grant and refreshed (any token issued so far, also one that was already refreshed),
    # while the server's supported scopes and the client's allowed scope change between requests
    hist = []
    hs = ["a", "b", "a b", "b a", "a b c", "a b c d", "c", "d c", "z", "a z", "", None]
    for _ in range(60 if tier == "quick" else 1500):
        ops, issued = [], 0
        gen = rng.choice(["bearer", "bearer", "jwt9068"])
        for _ in range(rng.randrange(2, 9)):
            cfgd = {"gen": gen, "supported": rng.choice([None, None, ["a", "b", "c", "d"], ["a", "b"], ["a", "b", "c", "d", "z"]]), "allowed": rng.choice(["a b c d", "a b c d", "a b c", "b c d z", "a"])}
            if issued == 0 or rng.random() < 0.25:
                ops.append(dict(cfgd, op="issue", requested=rng.choice(hs[:8] + ["a b c d"] * 3)))
            else:
                ops.append(dict(cfgd, op="refresh", idx=rng.randrange(0, issued + 1), requested=rng.choice(hs)))
            issued += 1          # (an upper bound: refused requests issue nothing; out-of-range references are part of the test)
        hist.append({"grant": "history", "gen": gen, "ops": ops, "requested": "history", "original": None, "supported": None, "allowed": ""})
    return allc + warm + tr + hist


def impl_history(c):
    store, srv, rp = ms.build(scopes_supported=None, oidc=False)
    _install_generator(srv, store, c["gen"])
    store.clients["c1"] = Client("c1", "s1", ["https://c1/cb"], "a b c d", ms.ALL_GRANT_TYPES, ms.ALL_RESPONSE_TYPES)
    hdr = ms.basic("c1", "s1")
    rts, steps = [], []
    for op in c["ops"]:
        srv.scopes_supported = op["supported"]
        store.clients["c1"].set_client_metadata(dict(store.clients["c1"].client_metadata, scope=op["allowed"]))
        sc = {} if op["requested"] is None else {"scope": op["requested"]}
        if op["op"] == "issue":
            form = dict(grant_type="password", username="1", password="pw", **sc)
        else:
            form = dict(grant_type="refresh_token", refresh_token=rts[op["idx"]] if op["idx"] < len(rts) else "no-such-token", **sc)
        r = srv.create_token_response(Req("POST", "https://as.example/token", form=form, headers=hdr))
        body = r.body
        if "error" in body:
            steps.append({"error": body["error"]})
        else:
            rts.append(body.get("refresh_token"))
            steps.append(_result(c, body))
    live = [not t.refresh_token_revoked_at for t in store.tokens]
    return {"steps": steps, "live": live, "_refresh_tokens": [bool(x) for x in rts]}


def model_line(c):
    if c["grant"] == "history":
        return {"ops": c["ops"]}
    return {"kind": GRANTS[c["grant"]], "gen": c["gen"], "supported": c["supported"], "allowed": c["allowed"],
            "requested": c["requested"], "original": c["original"]}


_KEY = None


def _install_generator(srv, store, gen):
    from authlib.jose import OctKey, KeySet
    if gen == "bearer":
        return
    if gen == "jwt7523":
        from authlib.oauth2.rfc7523 import JWTBearerTokenGenerator
        srv.register_token_generator("default", JWTBearerTokenGenerator(OctKey.import_key(b"k" * 32), issuer="https://as.example", alg="HS256"))
    else:
        from authlib.oauth2.rfc9068 import JWTBearerTokenGenerator as G9068

        class G(G9068):
            def get_jwks(self):
                return OctKey.import_key(b"k" * 32, {"kid": "k1"})
        g = G(issuer="https://as.example", alg="HS256", refresh_token_generator=lambda **kw: store.nxt("rt"))
        srv.register_token_generator("default", g)


def _embedded(token_str):
    parts = token_str.split(".")
    if len(parts) != 3:
        return None
    pad = "=" * (-len(parts[1]) % 4)
    try:
        payload = json.loads(base64.urlsafe_b64decode(parts[1] + pad))
    except Exception:
        return None
    return payload.get("scope")


def _result(c, body):
    if "error" in body:
        return {"error": body["error"]}
    emb = _embedded(body["access_token"]) if c["gen"] != "bearer" else None
    return {"response": body.get("scope"), "embedded": emb}


def impl_one(c, framework=None):
    w = c.get("warmup")
    store, srv, rp = ms.build(scopes_supported=w["supported"] if w else c["supported"], oidc=False, framework=framework)
    srv.register_grant(ms.JwtBearerGrant)
    _install_generator(srv, store, c["gen"])
    store.clients["c1"] = Client("c1", "s1", ["https://c1/cb"], c["allowed"], ms.ALL_GRANT_TYPES, ms.ALL_RESPONSE_TYPES)
    if w:
        ms.fw_call(srv, Req("POST", "https://as.example/token", form=dict(grant_type="client_credentials", scope=w["requested"]), headers=ms.basic("c1", "s1")), "create_token_response")
        srv.scopes_supported = c["supported"]
    store.clients["p1"] = Client("p1", "", ["https://p1/cb"], c["allowed"], ms.ALL_GRANT_TYPES, ms.ALL_RESPONSE_TYPES, method="none")
    hdr = ms.basic("c1", "s1")
    grant, rq = c["grant"], c["requested"]
    place = c.get("place", "form")
    sc = {} if (rq is None or place == "query") else {"scope": rq}
    from urllib.parse import urlencode
    qs = ""
    if rq is not None and place == "query":
        qs = "?" + urlencode({"scope": rq})
    elif rq is not None and place == "both":
        qs = "?" + urlencode({"scope": "a b c d z"})      # the form value takes precedence in request.data
    TOK = "https://as.example/token" + qs
    user = store.users[1]
    if grant == "implicit":
        r = ms.fw_call(srv, Req("POST", "https://as.example/authorize" + qs, dict(response_type="token", client_id="p1", **sc)), "create_authorization_response", grant_user=user)
        loc = dict(r.headers).get("Location", "")
        frag = dict(parse_qsl(urlparse(loc).fragment, keep_blank_values=True))
        return _result(c, frag if loc else dict(r.body))
    if grant == "password":
        r = ms.fw_call(srv, Req("POST", TOK, form=dict(grant_type="password", username="1", password="pw", **sc), headers=hdr), "create_token_response")
        return _result(c, r.body)
    if grant == "client_credentials":
        r = ms.fw_call(srv, Req("POST", TOK, form=dict(grant_type="client_credentials", **sc), headers=hdr), "create_token_response")
        return _result(c, r.body)
    if grant in ("jwt_bearer", "jwt_bearer_nosub"):
        a = ms.jwt_bearer_assertion("c1", **({"sub": None} if grant == "jwt_bearer_nosub" else {}))      # an assertion without sub: the client acts for itself
        r = ms.fw_call(srv, Req("POST", TOK, form=dict(grant_type=ms.JWT_BEARER, assertion=a.decode() if isinstance(a, bytes) else a, **sc)), "create_token_response")
        return _result(c, r.body)
    if grant == "authorization_code":
        r = ms.fw_call(srv, Req("POST", "https://as.example/authorize" + qs, dict(response_type="code", client_id="c1", **sc)), "create_authorization_response", grant_user=user)
        loc = dict(r.headers).get("Location", "")
        q = dict(parse_qsl(urlparse(loc).query, keep_blank_values=True)) if loc else dict(r.body)
        if "error" in q:
            return {"error": q["error"]}
        ts = {"scope": c["token_scope"]} if c.get("token_scope") else {}
        r = ms.fw_call(srv, Req("POST", form=dict(grant_type="authorization_code", code=q["code"], **ts), headers=hdr), "create_token_response")
        return _result(c, r.body)
    if grant == "device_code":
        r = ms.fw_call(srv, Req("POST", "https://as.example/device" + qs, form=dict(client_id="c1", **sc), headers=hdr), "create_endpoint_response", "device_authorization")
        if "error" in r.body:
            return {"error": r.body["error"]}
        store.user_grants[r.body["user_code"]] = (1, True)
        r = ms.fw_call(srv, Req("POST", form=dict(grant_type="urn:ietf:params:oauth:grant-type:device_code",
                                                            device_code=r.body["device_code"], **({"scope": c["token_scope"]} if c.get("token_scope") else {})), headers=hdr),
                       "create_token_response")
        return _result(c, r.body)
    if grant == "refresh_token":
        store.tokens.append(Token(_store=store, access_token="old-at", refresh_token="old-rt", client_id="c1", user_id=1,
                                  scope=c["original"], expires_in=3600, issued_at=CLOCK(), token_type="Bearer"))
        r = ms.fw_call(srv, Req("POST", TOK, form=dict(grant_type="refresh_token", refresh_token="old-rt", **sc), headers=hdr), "create_token_response")
        return _result(c, r.body)
    raise AssertionError(grant)


def impl(c):
    """the core server, and the same request through the Flask and Django integrations (scopes_supported comes from their configuration)"""
    if c["grant"] == "history":
        return impl_history(c)
    base = impl_one(c)
    out = dict(base)
    # (query and form carrying DIFFERENT values of one parameter is read differently by Flask — query first — and by the core / Django
    #  wrappers — form first; the property does not say which, so that placement is exercised on the core server only)
    if not c.get("warmup") and c.get("place") != "both":
        for fw in ("flask", "django", "flask-lazy"):
            o = impl_one(c, fw)
            if o != base:
                out["differs:" + fw] = o
    return out


def W(s):
    return set(s.split()) if s else set()


def oracle_history(c, out):
    """the statement over the history: every refresh keeps or narrows the scope of the token it refreshes (hence of the chain's first token); a refresh token is good once"""
    v = []
    toks = []          # (response scope words, live)
    for op, st in zip(c["ops"], out["steps"]):
        sig = {"grant": "history", "gen": c["gen"], "op": op["op"]}
        if op["op"] == "issue":
            if "error" in st:
                if st["error"] != "invalid_scope" or not (op["requested"] and op["supported"] and not set(op["supported"]) >= W(op["requested"])):
                    v.append((f"history: token request {op} refused with {st}", dict(sig, kind="spurious-invalid-scope")))
                continue
            lim = W(op["requested"]) & W(op["allowed"]) & (set(op["supported"]) if op["supported"] else W(op["requested"]))
            for side in ("response", "embedded"):
                if st[side] is not None and not W(st[side]) <= lim:
                    v.append((f"history: {side} scope {st[side]!r} of {op} exceeds {sorted(lim)}", dict(sig, kind="scope-exceeds", side=side)))
            toks.append([W(st["response"]), True])
        else:
            parent = toks[op["idx"]] if op["idx"] < len(toks) else None
            if parent is None or not parent[1]:
                if st.get("error") != "invalid_grant":
                    v.append((f"history: refresh with an unknown / already used refresh token answered {st}", dict(sig, kind="dead-token-refreshed")))
                    if "error" not in st:
                        toks.append([W(st["response"]), True])
                continue
            if "error" in st:
                if st["error"] != "invalid_scope" or not (op["requested"] and not parent[0] >= W(op["requested"])):
                    v.append((f"history: refresh {op} of a token with scope {sorted(parent[0])} refused with {st}", dict(sig, kind="spurious-invalid-scope")))
                continue
            if op["requested"] and not parent[0] >= W(op["requested"]):
                v.append((f"history: refresh {op} widening the refreshed token's scope {sorted(parent[0])} did not fail with invalid_scope", dict(sig, kind="refresh-widened")))
            lim = parent[0] & W(op["allowed"]) & (W(op["requested"]) if op["requested"] else parent[0])
            for side in ("response", "embedded"):
                if st[side] is not None and not W(st[side]) <= lim:
                    v.append((f"history: {side} scope {st[side]!r} after {op} exceeds the refreshed token's scope ∩ allowed ∩ requested = {sorted(lim)}", dict(sig, kind="scope-exceeds", side=side)))
            parent[1] = False
            toks.append([W(st["response"]), True])
    return v


def oracle(c, out):
    if c["grant"] == "history":
        return oracle_history(c, out)
    v = oracle_one(c, {k: x for k, x in out.items() if not k.startswith("differs:")})
    for fw in ("flask", "django", "flask-lazy"):
        if "differs:" + fw in out:
            v += [(f"[{fw} integration] " + what, dict(sig, fw=fw)) for what, sig in oracle_one(c, out["differs:" + fw])]
    return v


def oracle_one(c, out):
    """the property statement, evaluated directly on what the real code answered"""
    v = []
    rq, og, sup, al = c["requested"], c["original"], c["supported"], c["allowed"]
    sig = {"grant": c["grant"], "gen": c["gen"]}
    if "error" in out:
        if out["error"] != "invalid_scope":
            raise AssertionError(f"unexpected error {out} for {c}")
        # a refusal is only wrong if nothing justified it
        justified = (c["grant"] != "refresh_token" and rq and sup and not set(sup) >= W(rq)) or \
                    (c["grant"] == "refresh_token" and rq and (not og or not W(og) >= W(rq)))
        if not justified:
            v.append(("invalid_scope returned for a request that is within every limit", dict(sig, kind="spurious-invalid-scope")))
        return v
    for side in ("response", "embedded"):
        got = out[side]
        if got is None:
            continue
        if not isinstance(got, str):
            v.append((f"{side} scope is not a string: {got!r}", dict(sig, kind="scope-type", side=side))); continue
        ws = W(got)
        lim = W(al)
        if c["grant"] == "refresh_token":
            lim &= W(og)
            if rq:
                lim &= W(rq)
        else:
            lim &= W(rq)
            if sup:
                lim &= set(sup)
        if not ws <= lim:
            v.append((f"{side} scope {got!r} exceeds requested∩allowed∩supported∩original = {sorted(lim)}",
                      dict(sig, kind="scope-exceeds", side=side)))
    if c["grant"] != "refresh_token" and rq and sup and not set(sup) >= W(rq):
        v.append(("request naming an unsupported scope did not fail with invalid_scope", dict(sig, kind="unsupported-accepted")))
    if c["grant"] == "refresh_token" and rq and not W(og) >= W(rq):
        v.append(("refresh widening the original scope did not fail with invalid_scope", dict(sig, kind="refresh-widened")))
    if c["gen"] != "bearer" and W(out["embedded"] if isinstance(out["embedded"], str) else "") != W(out["response"] or ""):
        v.append((f"embedded scope {out['embedded']!r} differs from response scope {out['response']!r}",
                  dict(sig, kind="embedded-differs")))
    return v


def project(c, out):
    return {k: v for k, v in out.items() if not k.startswith("_")}


def classify(c, out):
    if c["grant"] == "history":
        return "history/" + c["gen"] + "/" + ",".join(sorted({("issued" if "error" not in s else s["error"]) for s in out["steps"]}))
    return c["grant"] + "/" + c["gen"] + "/" + ("invalid_scope" if "error" in out else "issued" if out["response"] else "issued-empty")


def nontrivial(c, out):
    return c if c["requested"] else None


def search(breaks, rng, known, match_known):
    for c in cases(rng, "thorough"):
        o = impl(c)
        for what, sig in oracle(c, o):
            if match_known(known, sig) is None:
                return {"what": what, "sig": sig, "case": c, "impl": o}
    return None
