"""C19 — a storage failure never yields an unpersisted credential or a lost grant (fault sequences × histories)."""
import copy

import provider_hist as H
import flows as F
from props import c12

RULE = ("one case = one history on the real OAuth 2 or OAuth 1 provider in which some requests carry an injected fault: the k-th integrator storage callback of that "
        "request raises. Exhaustive part: every traced protocol flow × every callback position k (and every pair k1,k2 on two successive attempts), followed by "
        "fault-free repetitions of the request; sampled part: random walks with faulted requests interleaved. Compared with the Lean model: the store right after "
        "every fault (stepFault = the completed effects of the step), every later output and the final store")
ASSUMPTIONS = ["a fault is an exception raised by the callback before it acts; a failed SQLAlchemy commit leaves the stored rows unchanged (FakeSession rolls back)",
               "repeating an OAuth 1 request = re-signing it with a new nonce (a verbatim resend is a replay and is refused by design, C12)",
               "the implicit, OpenID implicit and hybrid flows are traced (Generated/Flows, kernel-decided ordering) and checked by the statement oracle but are not part of the Lean state machine",
               "repeating an OpenID authorization request = sending it with a fresh nonce"]


def canon_store(st):
    if "tokens" in st:
        return {"codes": sorted(st["codes"]), "tokens": sorted(st["tokens"], key=lambda t: t[0]), "devices": sorted(st["devices"])}
    return {"temps": sorted(st["temps"]), "creds": sorted(st["creds"])}


def model_canon(mo):
    mo = dict(mo)
    if "store" in mo:
        mo["store"] = canon_store(mo["store"])
    if "outs" in mo:
        mo["outs"] = [dict(o, store=canon_store(o["store"])) if isinstance(o, dict) and "store" in o else o for o in mo["outs"]]
    return mo


def resign(op, tag):
    op = dict(op)
    if op.get("nonce") is not None:
        op["nonce"] = f"{op['nonce']}{tag}"
    return op


def record(world_kind, cfg_kw, ops):
    """run the ops on the real code once to learn what completed before each fault (the model's input)"""
    w = F.world(world_kind) if not cfg_kw else H.World(**cfg_kw)
    out = []
    for op in ops:
        op = {k: v for k, v in op.items() if k != "done"}
        o = w.step(op)
        if o.get("fault"):
            op["done"] = o["done"]
        out.append(op)
        if "raised" in o:
            break
    return {"world": world_kind, "cfg": w.cfg, "ops": out}


def scenario_cases(pairs):
    out = []
    for name, (kind, setup, op) in F.scenarios().items():
        _, ncb, o0 = F.trace(name)
        expect = o0.get("status")
        for k in range(ncb + 1):
            rs = lambda t: resign(op, t) if kind == "oauth1" or op["op"] == "oidc_authorize" else dict(op)
            for ft in (None, ["ValueError", "TypeError", "KeyError", "OSError", "AttributeError", "LookupError"][(k + len(name)) % 6], "ValueError" if k % 2 else "TypeError"):
                ops = list(setup) + [dict(rs("f"), fault=k, **({"fault_type": ft} if ft else {})), rs("r1"), rs("r2")]
                c = record(kind, None, ops)
                c["scenario"], c["expect_retry"], c["k"] = name, expect, [k]
                out.append(c)
            if pairs:
                for k2 in range(ncb):
                    ops = list(setup) + [dict(rs("f"), fault=k), dict(rs("g"), fault=k2), rs("r1"), rs("r2")]
                    c = record(kind, None, ops)
                    c["scenario"], c["expect_retry"], c["k"] = name, expect, [k, k2]
                    out.append(c)
    return out


def assertion_cases():
    """token requests authenticated with an RFC 7523 client assertion (client lookup and jti store are integrator callbacks too): a fault at the k-th
    callback surfaces, nothing is issued or stored; the fault-free repetition (new jti) succeeds"""
    out = []
    for grant in ("client_credentials", "refresh_token"):
        for k in range(0, 8):
            for ft in (None, "ValueError", "KeyError", "OSError", "LookupError"):
                out.append({"world": "assertion", "grant": grant, "k": k, "fault_type": ft, "cfg": {}, "ops": []})
    return out


def framework_cases():
    """the client lookup of the Flask / Django integrations fails (a database that is down, a driver error): the failure surfaces, whatever its exception class"""
    out = []
    for fw in ("django", "flask"):
        for ep in ("token", "authorize", "revocation"):
            for ft in (None, "ValueError", "KeyError", "OSError", "LookupError", "DatabaseError", "TypeError", "AttributeError"):
                out.append({"world": "framework", "fw": fw, "ep": ep, "fault_type": ft, "cfg": {}, "ops": []})
    return out


def flask1_cases():
    """the Flask OAuth 1 integration on its cache hooks: a cache operation (get / set / delete) fails during a request — the failure surfaces and nothing redeemable is lost or kept twice"""
    return [{"world": "flask1", "method": m, "nth": nth, "at": at, "cfg": {}, "ops": []} for at in ("initiate", "authorize", "exchange") for m in ("get", "set", "delete") for nth in (0, 1)]


def impl_flask1(c):
    import memserver as ms
    from props import c12
    S = lambda cl, ts, n: {"method": "HMAC-SHA1", "timestamp": str(c12.NOW0), "nonce": n, "signed_with": [c12.SECRETS[cl], ts], "client": cl}
    w = c12.World1Flask(["HMAC-SHA1"])
    ops = [dict({"op": "initiate", "callback": "oob", "callback_valid": False}, **S("ca", "", "f1")), {"op": "authorize", "token": "tmp1", "user": 1},
           dict({"op": "exchange", "token": "tmp1", "verifier": "ver3"}, **S("ca", "tsec2", "f2"))]
    idx = {"initiate": 0, "authorize": 1, "exchange": 2}[c["at"]]
    outs = []
    for i, op in enumerate(ops):
        if i == idx:
            real, n = getattr(w.cache, c["method"]), [0]

            def failing(*a, **k):
                n[0] += 1
                if n[0] - 1 == c["nth"]:
                    raise ms.Fault(f"injected cache.{c['method']} failure")
                return real(*a, **k)
            setattr(w.cache, c["method"], failing)
            try:
                o = w._step(op)
            finally:
                setattr(w.cache, c["method"], real)
            outs.append(dict(o, calls=n[0]))
            if "raised" in o or n[0] > c["nth"]:
                # the fault hit (surfaced or not): repeat the request fault-free, re-signed
                op2 = dict(op, nonce=op["nonce"] + "r") if "nonce" in op else dict(op)
                outs.append(dict(w._step(op2), retry=True))
        else:
            outs.append(w._step(op))
    return {"outs": outs}


def impl_framework(c):
    import memserver as ms
    from memserver import Req, Client
    ms.install_clock()
    store, srv, rp = ms.build(oidc=False, framework=c["fw"])
    store.clients["c1"] = Client("c1", "s1", ["https://c1/cb"], "a b", ms.ALL_GRANT_TYPES, ms.ALL_RESPONSE_TYPES)
    hdr = ms.basic("c1", "s1")
    def call():
        if c["ep"] == "token":
            return ms.fw_call(srv, Req("POST", ms.TOKEN_URL, dict(grant_type="client_credentials", scope="a"), hdr), "create_token_response")
        if c["ep"] == "authorize":
            return ms.fw_call(srv, Req("POST", "https://as.example/authorize", dict(response_type="code", client_id="c1", scope="a", state="s")), "create_authorization_response",
                              grant_user=store.users[1])
        return ms.fw_call(srv, Req("POST", "https://as.example/revoke", dict(token="nope"), hdr), "create_endpoint_response", "revocation")
    out = {}
    store.trace, store.fail_at, store.fault_type = [], 0, c["fault_type"]
    try:
        r = call()
        out["first"] = {"status": r.status, "error": (r.body if isinstance(r.body, dict) else {}).get("error"), "location": dict(r.headers).get("Location", "")[:60]}
    except Exception as e:
        out["first"] = {"surfaced": type(e).__name__}
    out["callbacks"] = list(store.trace)
    store.fail_at = None
    try:
        r = call()
        out["retry"] = {"status": r.status, "error": (r.body if isinstance(r.body, dict) else {}).get("error")}
    except Exception as e:
        out["retry"] = {"surfaced": type(e).__name__}
    return out


def impl_assertion(c):
    import json
    import memserver as ms
    from memserver import Req, Client, Token, CLOCK
    from authlib.jose import jwt
    ms.install_clock()
    store, srv, rp = ms.build(oidc=False)
    store.clients["jwtc"] = Client("jwtc", "jwt-shared-secret-jwt-shared-secret", ["https://c/cb"], "a b", ms.ALL_GRANT_TYPES, ms.ALL_RESPONSE_TYPES, "client_assertion_jwt")
    ms.enable_jwt_client_auth(store, srv)
    store.tokens.append(Token(_store=store, access_token="AT0", refresh_token="RT0", client_id="jwtc", user_id=1, scope="a", expires_in=3600, issued_at=CLOCK(), token_type="Bearer"))
    saved = {g: g.TOKEN_ENDPOINT_AUTH_METHODS for g in (ms.ClientCredentialsGrant, ms.RefreshGrant)}
    for g in saved:
        g.TOKEN_ENDPOINT_AUTH_METHODS = ["client_secret_basic", "client_assertion_jwt"]
    def request(jti):
        a = jwt.encode({"alg": "HS256"}, {"iss": "jwtc", "sub": "jwtc", "aud": ms.TOKEN_URL, "exp": CLOCK() + 300, "iat": CLOCK(), "jti": jti}, store.clients["jwtc"].client_secret.encode()).decode()
        form = {"grant_type": c["grant"], "client_assertion_type": "urn:ietf:params:oauth:client-assertion-type:jwt-bearer", "client_assertion": a}
        if c["grant"] == "refresh_token":
            form["refresh_token"] = "RT0"
        return Req("POST", ms.TOKEN_URL, form, {})
    def snap():
        return json.dumps(store.snapshot(), sort_keys=True)
    try:
        out = {}
        before = snap()
        store.trace, store.fail_at, store.fault_type = [], c["k"], c["fault_type"]
        try:
            r = srv.create_token_response(request("j1"))
            out["first"] = {"status": r.status, "error": (r.body or {}).get("error"), "issued": "access_token" in (r.body or {})}
        except Exception as e:
            out["first"] = {"surfaced": type(e).__name__}
        out["callbacks"] = list(store.trace)
        out["fault_hit"] = len(store.trace) > c["k"]
        out["changed_by_fault"] = snap() != before
        store.fail_at = None
        store.trace = []
        try:
            r = srv.create_token_response(request("j2"))
            out["retry"] = {"status": r.status, "error": (r.body or {}).get("error"), "issued": "access_token" in (r.body or {})}
        except Exception as e:
            out["retry"] = {"surfaced": type(e).__name__}
        return out
    finally:
        for g, m in saved.items():
            g.TOKEN_ENDPOINT_AUTH_METHODS = m


def cases(rng, tier):
    out = scenario_cases(pairs=True) + assertion_cases() + framework_cases() + flask1_cases()
    n, ln = (60, 12) if tier == "quick" else (1500, 28)
    for i in range(n):
        h = H.gen_history(rng, ln, "code" if i % 2 else "token", pkce_required=(i % 5 == 0), fault_p=0.35)
        out.append({"world": "oauth2", "cfg": h["cfg"], "ops": h["ops"]})
        h = c12.gen_history(rng, ln, ["HMAC-SHA1"], fault_p=0.35)
        out.append({"world": "oauth1", "cfg": h["cfg"], "ops": h["ops"]})
    return out


def impl(c):
    if c["world"] == "flask1":
        return impl_flask1(c)
    if c["world"] == "framework":
        return impl_framework(c)
    if c["world"] == "assertion":
        return impl_assertion(c)
    if c["world"] in ("oauth2", "oidc"):
        cfg = c["cfg"]
        w = H.World(cfg.get("pkce_required", False), cfg.get("supported"), cfg.get("strict_hint", False), oidc=cfg.get("oidc", False))
    else:
        w = c12.World1(c["cfg"]["methods"])
    outs = []
    for op in c["ops"]:
        before = w.snapshot() if op.get("fault") is not None else None
        o = w.step({k: v for k, v in op.items() if k != "done"})
        if before is not None:
            o = dict(o, before=before)
        outs.append(o)
        if "raised" in o:
            break
    return {"outs": outs, "store": w.snapshot()}


def model_line(c):
    if c["world"] in ("assertion", "framework", "flask1"):
        return None
    if c["world"] == "oidc" or any(op["op"] == "implicit" for op in c["ops"]):
        return None
    return {"world": c["world"], "cfg": c["cfg"], "ops": [{k: v for k, v in op.items() if k != "fault"} for op in c["ops"]]}


def project(c, out):
    if c["world"] in ("assertion", "framework", "flask1"):
        return out
    outs = []
    for o in out["outs"]:
        o = {k: v for k, v in o.items() if k not in ("before", "nofault")}
        if "store" in o:
            o["store"] = canon_store(o["store"])
        outs.append(o)
    return {"outs": outs, "store": canon_store(out["store"])}


def _creds_in(o):
    """credential strings a response hands out"""
    if not isinstance(o, dict):
        return []
    r = []
    for k, pre in (("code", "code"), ("access", "at"), ("refresh", "rt"), ("device_code", "dc")):
        if o.get(k) is not None:
            r.append(f"{pre}{o[k]}")
    if isinstance(o.get("token"), str) and o.get("status") in (200,):
        r.append(o["token"])
    return r


def _stored_names(st):
    if "tokens" in st:
        names = {f"code{c[0]}" for c in st["codes"]} | {f"dc{d[0]}" for d in st["devices"]}
        for t in st["tokens"]:
            names.add(f"at{t[0]}")
            if t[1] is not None:
                names.add(f"rt{t[1]}")
        return names
    return {t[0] for t in st["temps"]} | {c[0] for c in st["creds"]}


def oracle(c, out):
    v = []
    def bad(what, **sig):
        v.append((what, dict(sig, world=c["world"])))
    if c["world"] == "flask1":
        idx = {"initiate": 0, "authorize": 1, "exchange": 2}[c["at"]]
        hit = out["outs"][idx] if len(out["outs"]) > idx else None
        if hit is not None and hit.get("calls", 0) > c["nth"] and "raised" not in hit:
            bad(f"[flask OAuth 1 cache hooks] cache.{c['method']} call #{c['nth'] + 1} failed during the {c['at']} request: the failure did not surface, the caller was answered {hit}",
                kind="fault-swallowed", op=c["at"], fw="flask1")
        return v
    if c["world"] == "framework":
        if out["callbacks"][:1] != ["query_client"]:
            bad(f"[{c['fw']}] {c['ep']} request: the first storage callback is {out['callbacks'][:1]}, expected the client lookup", kind="trace-changed", op=c["ep"])
        elif "surfaced" not in out["first"]:
            bad(f"[{c['fw']} integration] {c['ep']} request, {c['fault_type'] or 'storage'} failure of the client lookup: the failure did not surface, the caller was answered {out['first']}",
                kind="fault-swallowed", op=c["ep"], fw=c["fw"])
        if "surfaced" in out["retry"] or out["retry"].get("error") in ("invalid_client",):
            bad(f"[{c['fw']} integration] {c['ep']} request repeated after the fault cleared: {out['retry']}", kind="retry-differs", op=c["ep"], fw=c["fw"])
        return v
    if c["world"] == "assertion":
        where = f"{c['grant']} request authenticated with a client assertion, {c['fault_type'] or 'storage'} fault at integrator callback #{c['k']} ({(out['callbacks'] + ['-'])[min(c['k'], len(out['callbacks']) - 1)] if out['callbacks'] else '-'})"
        if out["fault_hit"]:
            if "surfaced" not in out["first"]:
                bad(f"{where}: the failure did not surface, the caller was answered {out['first']}", kind="fault-swallowed", op=c["grant"], issued=bool(out["first"].get("issued")))
            first_stage = out["callbacks"][c["k"]] in ("query_client", "validate_jti")
            if out["changed_by_fault"] and first_stage:
                bad(f"{where}: stored state changed although client authentication never completed", kind="write-before-fault", op=c["grant"])
        elif "surfaced" in out["first"] or not out["first"].get("issued"):
            bad(f"{where} (never reached): fault-free request answered {out['first']}", kind="crash", op=c["grant"], exc=str(out["first"].get("surfaced")))
        # (what a fault in the grant's own callbacks leaves behind is the subject of the traced flows above; here: the authentication stage)
        if out["retry"].get("issued") is not True and ((not out["fault_hit"] and c["grant"] != "refresh_token") or
                                                       (out["fault_hit"] and out["callbacks"][c["k"]] in ("query_client", "validate_jti"))):
            bad(f"{where}: the fault-free repetition with a new jti answered {out['retry']}", kind="retry-differs", op=c["grant"])
        return v
    ops, outs = c["ops"], out["outs"]
    for i, (op, o) in enumerate(zip(ops, outs)):
        if "raised" in o:
            bad(f"{op['op']} raised {o['raised']}", kind="crash", op=op["op"], exc=o["raised"].split(":")[0]); break
        if op.get("fault") is None:
            continue
        before = o["before"]
        if o.get("nofault"):
            continue
        after = o.get("store")
        if o.get("swallowed"):
            handed = [x for x in _creds_in(o) if x not in _stored_names(after)]
            if handed and op["op"] != "access":
                bad(f"{op['op']}: a storage callback failed (fault at callback #{op['fault']}) and the response still handed out {handed}, which is not stored",
                    kind="unpersisted-credential", op=op["op"])
            else:
                bad(f"{op['op']}: the storage failure at callback #{op['fault']} did not surface to the caller (status {o.get('status')})", kind="swallowed", op=op["op"])
            continue
        # consumed only after the replacement is stored
        new = _stored_names(after) - _stored_names(before)
        if c["world"] in ("oauth2", "oidc"):
            gone_codes = {x[0] for x in before["codes"]} - {x[0] for x in after["codes"]}
            rev = lambda st: {t[0] for t in st["tokens"] if t[6]}
            newly_revoked = rev(after) - rev(before)
            if gone_codes and not any(n.startswith("at") for n in new):
                bad(f"{op['op']}: after the fault at callback #{op['fault']} the authorization code is gone and no token was stored", kind="consumed-before-stored", op=op["op"])
            if op["op"] == "refresh" and newly_revoked and not any(n.startswith("at") for n in new):
                bad(f"refresh: after the fault at callback #{op['fault']} the old refresh token is revoked and no new token was stored", kind="consumed-before-stored", op=op["op"])
        else:
            gone = {x[0] for x in before["temps"]} - {x[0] for x in after["temps"]}
            if op["op"] == "exchange" and gone and not new:
                bad(f"exchange: after the fault at callback #{op['fault']} the temporary credential is gone and no token credential was stored",
                    kind="consumed-before-stored", op=op["op"])
    # scenario histories: the grant is not lost — the fault-free repetition gives what the fault-free request gives
    if c.get("scenario") and len(outs) == len(ops) and len(ops) >= len(c["k"]) + 2:
        nf = len(c["k"])
        first_retry = outs[len(ops) - 2]
        if all(outs[len(ops) - 3 - j].get("fault") for j in range(nf)) and first_retry.get("status") != c["expect_retry"]:
            bad(f"{c['scenario']}: after a storage fault at callback(s) {c['k']} the repeated request answered {first_retry.get('status')} {first_retry.get('error')!r} "
                f"instead of {c['expect_retry']}: the grant was lost", kind="grant-lost", scenario=c["scenario"])
        # every credential handed out by a response is in the store at that moment or was consumed later by design: check the final responses
        handed = [x for o in outs[-2:] for x in _creds_in(o)]
        missing = [x for x in handed if x not in _stored_names(out["store"]) and not x.startswith("code")]
        if missing and c["scenario"] not in ("resource_access", "oauth1_resource"):
            bad(f"{c['scenario']}: the response handed out {missing}, which the store does not hold", kind="unpersisted-credential", op=ops[-1]["op"])
    return v


def classify(c, out):
    if c["world"] == "flask1":
        return f"flask1/{c['at']}/{c['method']}"
    if c["world"] == "framework":
        return f"framework/{c['fw']}/{c['ep']}"
    if c["world"] == "assertion":
        return f"assertion/{c['grant']}/" + ("fault" if out["fault_hit"] else "nofault")
    if c.get("scenario"):
        return f"scenario/{c['scenario']}/faults={len(c['k'])}"
    nf = sum(1 for o in out["outs"] if o.get("fault"))
    return f"walk/{c['world']}/faults={min(nf, 5)}"


def nontrivial(c, out):
    if c["world"] == "flask1":
        return [c["at"], c["method"], c["nth"]]
    if c["world"] == "framework":
        return [c["fw"], c["ep"], c["fault_type"]]
    if c["world"] == "assertion":
        return [c["grant"], c["k"], c["fault_type"]]
    return [(op["op"], op.get("fault"), tuple(op.get("done", ()))) for op in c["ops"]]


def search(breaks, rng, known, match_known):
    for c in cases(rng, "thorough"):
        o = impl(c)
        for what, sig in oracle(c, o):
            if match_known(known, sig) is None:
                return {"what": what, "sig": sig, "case": c, "impl": o}
    return None
