"""C13 — OpenID Connect ID Tokens: provider output and relying-party validation agree."""
import base64
import hashlib
import json
from urllib.parse import urlparse, parse_qsl

import joseref as R
import memserver as ms
from memserver import Req, Client, CLOCK
from authlib.jose import jwt, JsonWebToken, JsonWebKey
from authlib.jose.errors import JoseError
from authlib.jose import errors as je
from authlib.oidc.core import claims as oc
from authlib.oidc.core.util import create_half_hash
from authlib.oidc.core.grants.util import generate_id_token

RULE = ("e2e cases: one (response type, signing alg, perturbation of nonce / access token / code / client / issuer / key, clock offset, leeway): the real "
        "provider grants issue the ID Token, the library's claims classes validate it; fn cases: create_half_hash, generate_id_token payload and "
        "IDToken.validate on perturbed claim sets against the Lean model; replay cases: nonce reuse per client; non-trivial = distinct case")
ASSUMPTIONS = ["signatures are C01's subject: here jwt.decode is exercised with the matching / a different key; the Lean model covers the claims part",
               "reference integrator records (client, nonce) of front-channel ID Tokens in Store.used_nonces"]

RTS = ["code", "id_token", "id_token token", "code id_token", "code token", "code id_token token"]
ALGS = ["HS256", "HS384", "HS512", "RS256", "RS384", "RS512", "PS256", "PS384", "PS512", "ES256", "ES384", "ES512"]
ISS = "https://as.example"


def cls_name(rt):
    return "code" if rt == "code" else "implicit" if rt in ("id_token", "id_token token") else "hybrid"


RP_PERTS = ["none", "iss+/", "iss-1", "iss-substring", "iss-upper", "iss-missing", "aud-other", "aud-list-other", "aud-near", "nonce-other", "nonce-missing", "nonce-empty",
            "nonce-none-expected", "expired", "expired-within-leeway", "other-key", "at_hash-wrong"]


def rp_cases():
    """the relying-party validation as the Flask / Django / Starlette clients run it (parse_id_token)"""
    return [{"op": "rp_integration", "fw": fw, "pert": p} for fw in ("flask", "django", "starlette") for p in RP_PERTS]


def rp_setup(c):
    """(claims, key index, expected nonce, leeway) of an rp_integration case"""
    import rpclient as rc
    now = 1_000_000
    X = rc.ISSUER
    claims = {"iss": X, "sub": "u", "aud": "cid", "exp": now + 600, "iat": now, "nonce": "n", "at_hash": hh("HS256", "at")}
    p = c["pert"]
    other_key, nonce, leeway = False, "n", None
    if p == "iss+/": claims["iss"] = X + "/"
    elif p == "iss-1": claims["iss"] = X[:-1]
    elif p == "iss-substring": claims["iss"] = X[8:]
    elif p == "iss-upper": claims["iss"] = X.upper()
    elif p == "iss-missing": claims.pop("iss")
    elif p == "aud-other": claims["aud"] = "other"
    elif p == "aud-list-other": claims["aud"] = ["other"]
    elif p == "aud-near": claims["aud"] = "cid2"
    elif p == "nonce-other": claims["nonce"] = "m"
    elif p == "nonce-missing": claims.pop("nonce")
    elif p == "nonce-empty": claims["nonce"] = ""
    elif p == "nonce-none-expected": nonce = None
    elif p == "expired": claims["exp"] = now - 200
    elif p == "expired-within-leeway": claims["exp"] = now - 30; leeway = 60
    elif p == "other-key": other_key = True
    elif p == "at_hash-wrong": claims["at_hash"] = hh("HS256", "zz")
    return claims, other_key, nonce, leeway


def rp_callback_cases():
    """the whole callback of the three client integrations (authorize_access_token): what they accept as the provider's ID Token"""
    return [{"op": "rp_callback", "fw": fw, "pert": p} for fw in ("flask", "django", "starlette") for p in ("none", "issuer+/", "issuer-other", "nonce-other", "nonce-missing")]


def impl_rp_callback(c):
    import clientworld as cw
    w = cw.ClientWorld(c["fw"], ["p1", "p2"], False, False, True)
    b = w.begin(0, "p1", "https://rp/cb")
    p = c["pert"]
    o = w.callback(0, "p1", b["state"], id_nonce={"nonce-other": "zzz", "nonce-missing": None}.get(p, b["url_nonce"]),
                   id_iss={"issuer+/": "/", "issuer-other": ".evil.example"}.get(p, ""))
    return {"id_token": o.get("id_token"), "out": o.get("out"), **({"raised": o["raised"]} if "raised" in o else {})}


def impl_rp(c):
    import rpclient as rc
    ms.install_clock(); CLOCK.now = 1_000_000
    claims, other_key, nonce, leeway = rp_setup(c)
    token = {"access_token": "at", "token_type": "bearer", "id_token": rc.id_token(claims, rc.keys()[1] if other_key else None)}
    return rc.parse(c["fw"], token, nonce, leeway)


def shared_config_cases():
    """two flows, one after the other, on a provider whose get_jwt_config() hands out ONE dict (a module-level constant) to every grant:
    each ID Token carries the nonce of its own authentication request"""
    out = [{"op": "shared_config", "first": f, "second": s2} for f in ("code", "code id_token", "id_token")
           for s2 in ("code", "id_token", "id_token token", "code id_token", "code token", "code id_token token")]
    # … the second authentication request carries no nonce (allowed for the code flow): its ID Token carries none either
    out += [{"op": "shared_config", "first": f, "second": "code", "second_nonce": False} for f in ("code", "code id_token", "id_token")]
    # … and a provider that names the audience as one string (fresh configuration per call)
    out += [{"op": "shared_config", "first": "code", "second": s2, "aud_str": True, "fresh": True} for s2 in ("code", "id_token", "id_token token", "code id_token", "code id_token token")]
    return out


def impl_shared_config(c):
    import base64, json
    from urllib.parse import urlparse, parse_qsl
    from memserver import Req, Client
    ms.install_clock()
    store, srv, rp = ms.build(oidc=True)
    store.jwt_shared = not c.get("fresh")
    store.aud_str = bool(c.get("aud_str"))
    store.clients["pub"] = Client("pub", "", ["https://c/cb"], "openid profile", ms.ALL_GRANT_TYPES, ms.ALL_RESPONSE_TYPES, "none")
    def claims(tok):
        p = tok.split(".")[1]
        return json.loads(base64.urlsafe_b64decode(p + "=" * (-len(p) % 4)))
    out = []
    for i, rt in enumerate((c["first"], c["second"])):
        nonce = f"nonce-of-flow-{i + 1}" if (i == 0 or c.get("second_nonce", True)) else None
        form = dict(response_type=rt, client_id="pub", scope="openid profile", state="s", redirect_uri="https://c/cb", **({"nonce": nonce} if nonce else {}))
        r = srv.create_authorization_response(Req("POST", "https://as.example/authorize", form), grant_user=store.users[1])
        loc = dict(r.headers).get("Location", "")
        q = dict(parse_qsl(urlparse(loc).query + "&" + urlparse(loc).fragment, keep_blank_values=True))
        res = {"rt": rt, "sent_nonce": nonce, "error": q.get("error")}
        if "id_token" in q:
            cl = claims(q["id_token"]); res["front"] = {"nonce": cl.get("nonce"), "aud": cl.get("aud")}
        if "code" in q:
            r2 = srv.create_token_response(Req("POST", "https://as.example/token", dict(grant_type="authorization_code", code=q["code"], redirect_uri="https://c/cb", client_id="pub")))
            if "id_token" in r2.body:
                cl = claims(r2.body["id_token"]); res["back"] = {"nonce": cl.get("nonce"), "aud": cl.get("aud")}
            else:
                res["back"] = {"error": str(r2.body)[:80]}
        out.append(res)
    return {"flows": out}


def rp_extra_cases():
    out = []
    # a provider known by its discovery document only, whose issuer identifier ends in "/" (or not): the ID Token's iss is compared with it as published
    for fw in ("flask", "django"):
        for iss in ("https://op.example/", "https://op.example", "https://op.example/tenant/"):
            for tok_iss in ("same", "toggled-slash"):
                out.append({"op": "rp_discovery", "fw": fw, "issuer": iss, "tok_iss": tok_iss})
    # the relying party's key resolver has no key for the token's kid (answers None); the token carries its forger's key in a jwk header
    for cls in ("CodeIDToken", "ImplicitIDToken", "HybridIDToken"):
        for alg in ("HS256", "RS256", "ES256"):
            for with_jwk in (True, False):
                out.append({"op": "rp_resolver_none", "cls": cls, "alg": alg, "with_jwk": with_jwk})
    return out


def impl_rp_extra(c):
    import rpclient as rc
    from authlib.jose import jwt as _jwt, JsonWebKey, OctKey
    ms.install_clock()
    now = int(CLOCK())
    if c["op"] == "rp_discovery":
        iss = c["issuer"]
        tiss = iss if c["tok_iss"] == "same" else (iss[:-1] if iss.endswith("/") else iss + "/")
        tok = rc.id_token({"iss": tiss, "sub": "u", "aud": "cid", "exp": now + 600, "iat": now, "nonce": "n"})
        r = rc.parse(c["fw"], {"id_token": tok, "access_token": "at"}, "n", issuer=iss, discovery=True)
        return {"accepted": bool(r.get("accepted")), "error": r.get("error") or r.get("raised")}
    from authlib.oidc.core import claims as oc
    k = OctKey.import_key(b"f" * 32) if c["alg"] == "HS256" else JsonWebKey.generate_key({"RS256": "RSA", "ES256": "EC"}[c["alg"]], {"RS256": 2048, "ES256": "P-256"}[c["alg"]], is_private=True)
    hdr = {"alg": c["alg"], "kid": "no-such-kid"}
    if c["with_jwk"]:
        hdr["jwk"] = dict(k.as_dict(is_private=(c["alg"] == "HS256")))
    tok = _jwt.encode(hdr, {"iss": "https://op", "sub": "u", "aud": "cid", "exp": now + 600, "iat": now, "nonce": "n"}, k)
    try:
        cl = _jwt.decode(tok, lambda h, p: None, claims_cls=getattr(oc, c["cls"]), claims_params={"nonce": "n", "client_id": "cid"})
        cl.validate(now=now)
        return {"accepted": True}
    except Exception as e:
        return {"accepted": False, "error": type(e).__name__}


def cases(rng, tier):
    return _cases(rng, tier) + rp_cases() + rp_callback_cases() + shared_config_cases() + rp_extra_cases()


def _cases(rng, tier):
    out = []
    perts = ["none", "nonce", "access_token", "code", "client", "issuer", "key", "nonce-missing", "no-at", "no-code", "token-request-nonce"]
    offs = [(-10, 0), (3599, 0), (3600, 0), (3601, 0), (3650, 60), (3660, 60), (3661, 60), (3600.25, 0), (-61, 60), (-59, 60)]
    for rt in RTS:
        for alg in (ALGS if tier == "thorough" else [ALGS[(RTS.index(rt) * 5 + i * 7) % 12] for i in range(4)]):
            for pert in perts:
                out.append({"op": "e2e", "rt": rt, "alg": alg, "pert": pert, "offset": 10, "leeway": 0})
            for off, lw in offs:
                out.append({"op": "e2e", "rt": rt, "alg": alg, "pert": "none", "offset": off, "leeway": lw})
    for alg in ALGS + ["ES256K", "EdDSA", "none", "HS1", "XX"]:
        for s in ["", "a", "SplxlOBeZQQYbYS6WxSbIA", "jHkWEdUXMU1BwAsC4vtUsZwnNvTIxEl0z9K3vx5KF0Y", "ü✓", "x" * 200]:
            out.append({"op": "half_hash", "alg": alg, "s": s})
    # fn-level: validation of perturbed claim sets
    n = 600 if tier == "quick" else 12000
    for _ in range(n):
        cls = rng.choice(["code", "implicit", "hybrid"])
        alg = rng.choice(ALGS)
        nonce, code, at = rng.choice([None, "n1", "n1", ""]), rng.choice([None, "c1", "c1"]), rng.choice([None, "t1", "t1"])
        claims = {"iss": ISS, "sub": "u1", "aud": rng.choice([["cid"], "cid", ["cid", "other"], ["other"], "other", []]), "exp": rng.choice([100, 3700, 99.75]),
                  "iat": rng.choice([100, 101, 99]), "auth_time": rng.choice([100, "x", None, 0])}
        if rng.random() < 0.8 and nonce: claims["nonce"] = rng.choice([nonce, nonce, "other"])
        if rng.random() < 0.8 and code: claims["c_hash"] = rng.choice([hh(alg, code), hh(alg, "zz"), "", hh("HS512" if alg != "HS512" else "HS256", code)])
        if rng.random() < 0.8 and at: claims["at_hash"] = rng.choice([hh(alg, at), hh(alg, "zz"), ""])
        if rng.random() < 0.3: claims["azp"] = rng.choice(["cid", "other", ""])
        if rng.random() < 0.2: claims["amr"] = rng.choice([["pwd"], "pwd", []])
        for k in rng.sample(sorted(claims), rng.choice([0, 0, 0, 1])):
            claims.pop(k)
        params = {"nonce": nonce, "client_id": rng.choice(["cid", "cid", None, "cid2"]), "access_token": at, "code": code, "max_age": rng.random() < 0.1}
        out.append({"op": "validate", "cls": cls, "alg": alg, "claims": claims, "params": params, "iss_values": rng.choice([[ISS], [ISS, "x"], ["other"], None]),
                    "now": rng.choice([100, 3700, 3701]), "leeway": rng.choice([0, 60])})
    # replay histories
    for rt in RTS:
        out.append({"op": "replay", "rt": rt})
        out.append({"op": "replay", "rt": rt, "pkce_ext": True})      # the hybrid grant registered together with the PKCE extension
    for alg in ALGS[:3]:
        for nonce, code, at in [("n", "c", "t"), (None, None, "t"), ("n", None, None), (None, None, None)]:
            out.append({"op": "generate", "alg": alg, "nonce": nonce, "code": code, "access_token": at})
    return out


def hh(alg, s):
    v = create_half_hash(s, alg)
    return v.decode() if v else None


def key_for(alg, n=1):
    if alg.startswith("HS"):
        return (b"id-token-secret-id-token-secret-1" if n == 1 else b"id-token-secret-id-token-secret-2")
    return R.keys()[R.key_for_alg(alg, n)]


def authlib_key(alg, n, private):
    k = key_for(alg, n)
    if isinstance(k, bytes):
        return k
    return R.pem_private(k) if private else R.pem_public(k)


CLS = {"code": oc.CodeIDToken, "implicit": oc.ImplicitIDToken, "hybrid": oc.HybridIDToken}


def canon_err(e):
    if isinstance(e, je.MissingClaimError):
        return {"err": "missing_claim", "claim": e.description.split("'")[1]}
    if isinstance(e, je.InvalidClaimError):
        return {"err": "invalid_claim", "claim": e.claim_name}
    if isinstance(e, je.ExpiredTokenError):
        return {"err": "expired_token"}
    if isinstance(e, je.InvalidTokenError):
        return {"err": "invalid_token"}
    if isinstance(e, JoseError):
        return {"err": type(e).error}
    return {"raised": type(e).__name__}


def issue(rt, alg, nonce="n-0S6_WzA2Mj", token_nonce=None):
    """run the real provider for one response type; returns (id_token, access_token, code, store)"""
    store, srv, rp = ms.build(oidc=True)
    store.jwt = {"key": authlib_key(alg, 1, True), "alg": alg, "iss": ISS, "exp": 3600}
    store.clients["cid"] = Client("cid", "sec", ["https://c/cb"], "openid profile", ms.ALL_GRANT_TYPES, ms.ALL_RESPONSE_TYPES, method="client_secret_basic")
    store.clients["pub"] = Client("pub", "", ["https://c/cb"], "openid profile", ms.ALL_GRANT_TYPES, ms.ALL_RESPONSE_TYPES, method="none")
    cid = "cid" if rt == "code" else "pub"
    form = dict(response_type=rt, client_id=cid, scope="openid profile", redirect_uri="https://c/cb", state="st")
    if nonce:
        form["nonce"] = nonce
    r = srv.create_authorization_response(Req("POST", "https://as.example/authorize", form), grant_user=store.users[1])
    loc = dict(r.headers).get("Location", "")
    u = urlparse(loc)
    params = dict(parse_qsl(u.query)) if rt == "code" else dict(parse_qsl(u.fragment))
    if "error" in params or not loc:
        return {"error": params.get("error") or (r.body.get("error") if isinstance(r.body, dict) else "?")}, None, None, store
    code, at, idt = params.get("code"), params.get("access_token"), params.get("id_token")
    if rt in ("code", "code token"):
        hdr = ms.basic("cid", "sec") if cid == "cid" else {}
        f = dict(grant_type="authorization_code", code=code, redirect_uri="https://c/cb")
        if cid == "pub":
            f["client_id"] = "pub"
        if token_nonce is not None:
            f["nonce"] = token_nonce          # a nonce parameter on the TOKEN request: the ID Token's nonce is the authentication request's
        r2 = srv.create_token_response(Req("POST", "https://as.example/token", f, hdr))
        if r2.status != 200:
            return {"error": r2.body.get("error")}, None, None, store
        idt = r2.body.get("id_token")
        at = r2.body["access_token"]          # the ID Token from the token endpoint is bound to the access token issued with it
    return idt, at, code, store


def impl(c):
    if c["op"] in ("rp_discovery", "rp_resolver_none"):
        return impl_rp_extra(c)
    if c["op"] == "shared_config":
        return impl_shared_config(c)
    if c["op"] == "rp_integration":
        return impl_rp(c)
    if c["op"] == "rp_callback":
        return impl_rp_callback(c)
    ms.install_clock()
    CLOCK.now = 1_000_000
    op = c["op"]
    if op == "half_hash":
        v = create_half_hash(c["s"], c["alg"])
        return {"out": v.hex() if v is not None else None}
    if op == "generate":
        key = authlib_key(c["alg"], 1, True)
        tok = generate_id_token({"access_token": c["access_token"]} if c["access_token"] else {}, {"sub": "u1"}, key, ISS, ["cid"], alg=c["alg"], exp=3600,
                                nonce=c["nonce"], code=c["code"])
        payload = json.loads(base64.urlsafe_b64decode(tok.split(".")[1] + "=="))
        return {"claims": sorted([k, enc(v)] for k, v in payload.items())}
    if op == "validate":
        opts = {"iss": {"values": c["iss_values"]}} if c["iss_values"] is not None else {}
        claims = CLS[c["cls"]](dict(c["claims"]), {"alg": c["alg"]}, opts, {k: v for k, v in c["params"].items() if v is not None})
        try:
            claims.validate(now=c["now"], leeway=c["leeway"])
            return {"ok": True}
        except Exception as e:
            return canon_err(e)
    if op == "replay":
        return impl_replay(c)
    # e2e
    rt, alg, pert = c["rt"], c["alg"], c["pert"]
    nonce = "n-0S6_WzA2Mj"
    idt, at, code, store = issue(rt, alg, nonce, token_nonce="other-nonce" if pert == "token-request-nonce" else None)
    if isinstance(idt, dict):
        return {"provider_error": idt["error"]}
    if idt is None:
        return {"provider_error": "no id_token"}
    cid = "cid" if rt == "code" else "pub"
    p = {"nonce": nonce, "client_id": cid, "access_token": at, "code": code if cls_name(rt) == "hybrid" else None}
    iss, keyn = ISS, 1
    if pert == "nonce": p["nonce"] = nonce + "x"
    elif pert == "access_token" and at: p["access_token"] = at + "x"
    elif pert == "code" and p["code"]: p["code"] = code + "x"
    elif pert == "client": p["client_id"] = cid + "2"
    elif pert == "issuer": iss = ISS + "/"
    elif pert == "key": keyn = 2
    elif pert == "nonce-missing": p["nonce"] = None
    elif pert == "no-at": p["access_token"] = None
    elif pert == "no-code": p["code"] = None
    hdr = json.loads(base64.urlsafe_b64decode(idt.split(".")[0] + "=="))
    payload = json.loads(base64.urlsafe_b64decode(idt.split(".")[1] + "=="))
    res = {"_payload": payload, "_at": at, "_code": code, "_hdr": hdr, "_params": dict(p)}
    try:
        claims = JsonWebToken([alg]).decode(idt, authlib_key(alg, keyn, False), claims_cls=oc.get_claim_cls_by_response_type(rt),
                                            claims_options={"iss": {"values": [iss]}}, claims_params={k: v for k, v in p.items() if v is not None})
        claims.validate(now=CLOCK.now + c["offset"], leeway=c["leeway"])
        res["ok"] = True
    except Exception as e:
        res.update(canon_err(e))
    return res


def impl_replay(c):
    rt = c["rt"]
    store, srv, rp = ms.build(oidc=True, require_nonce=False, front_channel_pkce=bool(c.get("pkce_ext")))
    store.clients["pub"] = Client("pub", "", ["https://c/cb"], "openid", ms.ALL_GRANT_TYPES, ms.ALL_RESPONSE_TYPES, method="none")
    store.clients["pub2"] = Client("pub2", "", ["https://c/cb"], "openid", ms.ALL_GRANT_TYPES, ms.ALL_RESPONSE_TYPES, method="none")
    out = []
    def go(client, nonce):
        form = dict(response_type=rt, client_id=client, scope="openid", redirect_uri="https://c/cb")
        if nonce is not None:
            form["nonce"] = nonce
        r = srv.create_authorization_response(Req("POST", "https://as.example/authorize", form), grant_user=store.users[1])
        loc = dict(r.headers).get("Location", "")
        u = urlparse(loc)
        params = dict(parse_qsl(u.query) + parse_qsl(u.fragment))
        ok = "error" not in params and r.status in (302, 200) and bool(loc)
        if ok and nonce:
            store.used_nonces.add((client, nonce))      # what the integrator does when it hands out a front-channel ID Token
        return "ok" if ok else params.get("error") or (r.body.get("error") if isinstance(r.body, dict) else "error")
    out.append(go("pub", "N1"))
    out.append(go("pub", "N1"))          # replay by the same client
    out.append(go("pub2", "N1"))         # same nonce, other client: fine
    out.append(go("pub", "N2"))
    out.append(go("pub", None))          # nonce omitted
    return {"steps": out}


def enc(v):
    from props.c04 import enc as e4
    return e4(v)


def model_line(c):
    op = c["op"]
    if op in ("rp_callback", "shared_config", "rp_discovery", "rp_resolver_none"):
        return None
    if op == "rp_integration":
        if c["pert"] == "other-key":
            return None          # signature level: C01
        import rpclient as rc
        from props.c04 import q4
        claims, _, nonce, leeway = rp_setup(c)
        # what parse_id_token configures: iss ∈ [metadata issuer]; nonce / client_id / access_token as parameters; CodeIDToken (an access token came along); leeway 120
        params = {"client_id": "cid", "access_token": "at"}
        if nonce is not None:
            params["nonce"] = nonce
        return {"op": "validate", "cls": "code", "alg": "HS256", "claims": [[k, enc(v)] for k, v in claims.items()], "options": [["iss", {"values": [rc.ISSUER]}]],
                "params": params, "now": q4(1_000_000), "leeway": q4(120 if leeway is None else leeway)}
    if op == "half_hash":
        return {"op": op, "alg": c["alg"], "s": c["s"].encode().hex()}
    if op == "generate":
        return {"op": op, "alg": c["alg"], "iss": ISS, "aud": "cid", "sub": "u1", "now": CLOCK.now if False else 1_000_000, "exp": 3600, "nonce": c["nonce"], "code": c["code"],
                "access_token": c["access_token"]}
    if op == "validate":
        from props.c04 import q4
        opts = [["iss", {"values": [enc(v) for v in c["iss_values"]]}]] if c["iss_values"] is not None else []
        return {"op": op, "cls": c["cls"], "alg": c["alg"], "claims": [[k, enc(v)] for k, v in c["claims"].items()], "options": opts,
                "params": {k: v for k, v in c["params"].items() if v is not None}, "now": q4(c["now"]), "leeway": q4(c["leeway"])}
    if op == "e2e":
        o = impl(c)
        if "_payload" not in o:
            return None
        if c["pert"] in ("key",):
            return None          # signature level: C01
        from props.c04 import q4
        iss = ISS + "/" if c["pert"] == "issuer" else ISS
        try:
            claims = [[k, enc(v)] for k, v in o["_payload"].items()]
        except Exception:
            return None
        return {"op": "validate", "cls": cls_name(c["rt"]), "alg": c["alg"], "claims": claims, "options": [["iss", {"values": [iss]}]],
                "params": {k: v for k, v in o["_params"].items() if v is not None}, "now": q4(1_000_000 + c["offset"]), "leeway": q4(c["leeway"])}
    return None


def project(c, out):
    if c["op"] == "rp_callback":
        return out
    if c["op"] == "rp_integration":
        return {"ok": True} if out.get("accepted") else out.get("canon", out)
    if c["op"] in ("half_hash", "generate"):
        return out
    if c["op"] in ("validate", "e2e"):
        o = {k: v for k, v in out.items() if not k.startswith("_")}
        return o
    return out


def ref_half(alg, s):
    h = {"256": hashlib.sha256, "384": hashlib.sha384, "512": hashlib.sha512}[alg[2:]]
    d = h(s.encode()).digest()
    return base64.urlsafe_b64encode(d[:len(d) // 2]).rstrip(b"=").decode()


def oracle(c, out):
    v = []
    op = c["op"]
    def bad(what, **sig):
        v.append((what, dict(sig, op=op)))
    if op == "rp_discovery":
        want = c["tok_iss"] == "same"
        if out["accepted"] != want:
            bad(f"[{c['fw']} client] provider registered by discovery with issuer {c['issuer']!r}: an ID Token whose iss is {'that issuer' if want else 'that issuer with the trailing slash toggled'} "
                f"was {'accepted' if out['accepted'] else 'refused (' + str(out['error']) + ')'}", kind="rp-issuer", detail="accepted" if out["accepted"] else "refused")
        return v
    if op == "rp_resolver_none":
        if out["accepted"]:
            bad(f"relying party: {c['cls']} / {c['alg']} ID Token signed by an unknown key{' shipped in its own jwk header' if c['with_jwk'] else ''} was accepted although the key resolver has no key for it",
                kind="rp-key", detail="resolver-none")
        return v
    if op == "shared_config":
        for i, f in enumerate(out["flows"]):
            for side in ("front", "back"):
                t = f.get(side)
                if t is None:
                    continue
                if "error" in t:
                    bad(f"flow {i + 1} ({f['rt']}) on a provider with one shared JWT configuration dict: token endpoint answered {t['error']}", kind="shared-config", detail="flow-failed"); continue
                aud = t["aud"] if isinstance(t["aud"], list) else [t["aud"]]
                if t["nonce"] != f["sent_nonce"] or "pub" not in aud:
                    bad(f"provider whose get_jwt_config() returns one shared dict, flow {i + 1} ({f['rt']}, after a {c['first']} flow): the {side}-channel ID Token has nonce {t['nonce']!r} / aud {t['aud']!r}; "
                        f"the authentication request sent nonce {f['sent_nonce']!r} for client 'pub'", kind="shared-config", detail="nonce")
            if f["error"]:
                bad(f"flow {i + 1} ({f['rt']}) refused: {f['error']}", kind="shared-config", detail="flow-failed")
        return v
    if op == "rp_callback":
        if "raised" in out:
            bad(f"{c['fw']} client callback raised {out['raised']}", kind="crash", exc=out["raised"].split(":")[0]); return v
        want = "validated" if c["pert"] == "none" else "rejected"
        if not str(out.get("id_token")).startswith(want):
            bad(f"the {c['fw']} client's callback (authorize_access_token) left the ID Token {out.get('id_token')} although {c['pert']}; expected {want}",
                kind="rp-accepts" if want == "rejected" else "rp-refuses", pert=c["pert"].split("-")[0].split("+")[0], fw=c["fw"])
        return v
    if op == "rp_integration":
        if "raised" in out:
            bad(f"{c['fw']} client parse_id_token raised {out['raised']}", kind="crash", exc=out["raised"].split(":")[0]); return v
        want = c["pert"] in ("none", "expired-within-leeway", "nonce-none-expected")
        if c["pert"] == "no-id-token":
            want = False        # nothing to accept: parse_id_token returns None
        if out["accepted"] and not want:
            bad(f"the {c['fw']} client's relying-party validation accepts the ID Token although {c['pert']}", kind="rp-accepts", pert=c["pert"].split("-")[0].split("+")[0], fw=c["fw"])
        if not out["accepted"] and want:
            bad(f"the {c['fw']} client's relying-party validation refuses a conforming ID Token ({c['pert']}: {out.get('error')})", kind="rp-refuses", pert=c["pert"], fw=c["fw"])
        return v
    if op == "half_hash":
        if c["alg"] in ALGS:
            if out["out"] is None or bytes.fromhex(out["out"]).decode() != ref_half(c["alg"], c["s"]):
                bad(f"half hash for {c['alg']} is not the base64url left half of the matching SHA-2 digest", kind="half-hash", alg=c["alg"][2:])
    elif op == "e2e":
        rt, pert = c["rt"], c["pert"]
        if "provider_error" in out:
            bad(f"provider refused a valid authentication request: {out['provider_error']}", kind="provider-error", rt=rt); return v
        if "raised" in out:
            bad(f"relying-party validation raised {out['raised']}", kind="crash", rt=rt); return v
        pl, at, code = out["_payload"], out["_at"], out["_code"]
        cid = "cid" if rt == "code" else "pub"
        # provider-side content
        aud = pl.get("aud")
        if not (aud == cid or (isinstance(aud, list) and cid in aud)):
            bad("aud of the issued ID Token does not contain the client", kind="provider-claims", claim="aud", rt=rt)
        if pl.get("nonce") != "n-0S6_WzA2Mj":
            bad("nonce of the issued ID Token is not the request's", kind="provider-claims", claim="nonce", rt=rt)
        if at and rt != "code token" and "at_hash" in pl and pl["at_hash"] != ref_half(c["alg"], at):
            bad("at_hash is not the independent left-half hash of the access token", kind="provider-claims", claim="at_hash", rt=rt)
        if rt in ("id_token token", "code id_token token") and "at_hash" not in pl:
            bad("at_hash missing although an access token is issued with the ID Token", kind="provider-claims", claim="at_hash", rt=rt)
        if rt in ("code id_token", "code id_token token") and pl.get("c_hash") != ref_half(c["alg"], code):
            bad("c_hash is not the independent left-half hash of the code", kind="provider-claims", claim="c_hash", rt=rt)
        # relying-party verdict
        hybrid_no_chash = cls_name(rt) == "hybrid" and "c_hash" not in pl
        in_window = (1_000_000 + 3600 >= 1_000_000 + c["offset"] - c["leeway"]) and (1_000_000 <= 1_000_000 + c["offset"] + c["leeway"])
        effective = pert
        if pert == "access_token" and not at: effective = "none"
        if pert == "code" and cls_name(rt) != "hybrid": effective = "none"
        if pert == "nonce-missing" and cls_name(rt) == "code": effective = "none"     # nonce optional in the code flow when the RP sent none? it sent one: see below
        if pert == "token-request-nonce": effective = "none"
        should_accept = effective in ("none", "no-at", "no-code", "nonce-missing") and in_window
        if pert == "nonce-missing":
            should_accept = in_window        # RP that did not send / remember a nonce: nothing to compare
        if hybrid_no_chash and out["_params"].get("code"):
            # `code token`: the ID Token comes from the token endpoint and carries no c_hash (OIDC Core 3.3.2.11 requires it only for front-channel ID Tokens)
            if "ok" not in out:
                bad(f"hybrid response type {rt}: the provider's own ID Token (issued at the token endpoint, no c_hash) is refused by HybridIDToken when the code is supplied: {project(c, out)}",
                    kind="rp-refuses-provider-token", rt=rt, reason="c_hash-required-for-token-endpoint-id-token")
            return v
        if should_accept and "ok" not in out:
            bad(f"relying party refuses the provider's ID Token ({project(c, out)}) for pert={pert}", kind="rp-refuses-provider-token", rt=rt, reason=out.get("err", "?"))
        if not should_accept and "ok" in out:
            bad(f"relying party accepts the ID Token although {pert if effective != 'none' else 'the clock'} differs", kind="rp-accepts-mismatch", rt=rt, pert=pert)
    elif op == "replay":
        s = out["steps"]
        if s[0] != "ok" or s[2] != "ok" or s[3] != "ok":
            bad(f"fresh nonce refused: {s}", kind="nonce-fresh-refused", rt=c["rt"])
        if s[1] == "ok":
            bad("authentication request replaying a nonce already used by that client was accepted", kind="nonce-replay-accepted", rt=c["rt"])
        if c["rt"] != "code" and s[4] == "ok":
            bad("authentication request without nonce accepted where a nonce is required", kind="nonce-missing-accepted", rt=c["rt"])
    return v


def classify(c, out):
    if c["op"] == "rp_integration":
        return f"rp_integration/{c['fw']}/" + ("accepted" if out.get("accepted") else "refused")
    if c["op"] == "rp_callback":
        return f"rp_callback/{c['fw']}/{out.get('id_token')}"
    if c["op"] == "shared_config":
        return f"shared_config/{c['first']}"
    if c["op"] in ("rp_discovery", "rp_resolver_none"):
        return c["op"] + "/" + ("accepted" if out.get("accepted") else "refused")
    if c["op"] == "e2e":
        return f"e2e/{c['rt']}/{c['pert']}/" + ("ok" if "ok" in out else out.get("err", out.get("provider_error", "raised")))
    return c["op"]


def nontrivial(c, out):
    return c


def search(breaks, rng, known, match_known):
    for c in cases(rng, "thorough"):
        o = impl(c)
        for what, sig in oracle(c, o):
            if match_known(known, sig) is None:
                return {"what": what, "sig": sig, "case": c, "impl": project(c, o)}
    return None
