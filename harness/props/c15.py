"""C15 — what the client half emits, the server half reads back unchanged."""
import asyncio
import base64
import json
from urllib.parse import parse_qsl, urlparse

from authlib.oauth2.rfc6749.parameters import (prepare_grant_uri, prepare_token_request, parse_authorization_code_response,
                                               parse_implicit_response)
from authlib.oauth2.rfc6749 import errors as oe
from authlib.oauth2.rfc6749.util import extract_basic_authorization
from authlib.oauth2.rfc6749.requests import OAuth2Request
from authlib.oauth2.rfc6749.resource_protector import ResourceProtector
from authlib.oauth2.rfc6750 import BearerTokenValidator
from authlib.oauth2.auth import ClientAuth, TokenAuth
from authlib.common.urls import add_params_to_uri, url_decode

RULE = ("fn cases: one library call on hostile text values compared with the Lean model and with a direct round-trip oracle; "
        "e2e cases: one (grant, auth method, token placement) driven through the requests-, httpx- and async-httpx-based clients with recording "
        "transports, the captured wire request parsed by the library's server half; "
        "the client_secret_jwt / private_key_jwt methods and the three RFC 7521 assertion clients, their assertions read by the RFC 7523 server half; non-trivial = distinct case containing a value with a reserved or non-ASCII character")
ASSUMPTIONS = ["octet-level model: text is UTF-8 (latin-1 for the Basic header, as the client encodes it)",
               "str-level unquote(errors='replace') is outside the model; generated values are valid UTF-8"]

VALS = ["abc", "a b", "a+b", "a&b=c", "x#y?z;w/", "q\"'\\", "naïve✓", "100%", "%41", "a:b", " lead", "trail ", "~-._", "\t"]
ASCII_BASIC = ["abc", "a b", "a+b", "a&b=c", "x#y?z;w/", "q\"'\\", "~-._", "p:w:d", "Z9", "a=b", " x", "semi;colon"]
EXISTING = ["", "x=1", "x=1&y=%20", "k=v+w&k=v%2Bw", "blank=&z", "a=%E2%9C%93",
            "state=own&x=1", "scope=preset", "client_id=own&x=1", "access_token=own&y=2", "code=own", "redirect_uri=own"]      # names that collide with protocol parameters


def hx(s, enc="utf-8"):
    return None if s is None else s.encode(enc).hex()


def fn_cases(rng, tier):
    out = []
    n = 250 if tier == "quick" else 4000
    for _ in range(n):
        gt = rng.choice(["authorization_code", "password", "client_credentials", "refresh_token"])
        kw = []
        if gt == "authorization_code":
            kw.append(["code", rng.choice(VALS)])
            if rng.random() < 0.6:
                kw.append(["code_verifier", rng.choice(VALS + ["v" * 43])])
        if gt == "password":
            kw += [["username", rng.choice(VALS)], ["password", rng.choice(VALS + [""])]]
        if gt == "refresh_token":
            kw.append(["refresh_token", rng.choice(VALS)])
        if rng.random() < 0.6:
            kw.append(["scope", rng.choice(["a", "a b", ["a", "b"], ("b", "a"), {"only"}, "", "päth ✓"])])
        if rng.random() < 0.3:
            kw.append(["state", rng.choice(VALS + [""])])
        out.append({"op": "token_request", "grant_type": gt, "body": rng.choice(EXISTING), "redirect_uri": rng.choice([None, "", "https://c.example/cb?x=1&y=a b", "https://c/é"]),
                    "kwargs": kw})
    for _ in range(n):
        kw = []
        if rng.random() < 0.5:
            kw.append(["code_challenge", rng.choice(VALS)]); kw.append(["code_challenge_method", "S256"])
        if rng.random() < 0.4:
            kw.append(["nonce", rng.choice(VALS)])
        out.append({"op": "grant_query", "query": rng.choice(EXISTING), "client_id": rng.choice(VALS), "response_type": rng.choice(["code", "token", "code id_token"]),
                    "redirect_uri": rng.choice([None, "", "https://c.example/cb?x=1&y=a b#f"]), "scope": rng.choice([None, "", "a b", ["a", "b"], ("x",), "ü"]),
                    "state": rng.choice([None, ""] + VALS), "kwargs": kw, "fragment": rng.choice(["", "frag"])})
    for _ in range(n):
        out.append({"op": "secret_post", "body": rng.choice(EXISTING), "client_id": rng.choice(VALS), "client_secret": rng.choice(VALS + [""])})
        out.append({"op": "revoke_request", "body": rng.choice(EXISTING + ["resource=a&resource=b", "token=old&aud=x&aud=y"]), "token": rng.choice(VALS), "hint": rng.choice([None, "access_token", "refresh_token", "a b&c"])})
        out.append({"op": "jwt_auth_fn", "body": rng.choice(EXISTING), "client_id": rng.choice(VALS), "method": rng.choice(["client_secret_jwt", "private_key_jwt"])})
        out.append({"op": "none", "body": rng.choice(EXISTING), "client_id": rng.choice(VALS), "method": rng.choice(["POST", "GET"])})
        out.append({"op": "basic", "client_id": rng.choice([v for v in ASCII_BASIC if ":" not in v]), "client_secret": rng.choice(ASCII_BASIC), "domain": True})
        out.append({"op": "basic", "client_id": rng.choice(VALS[:6] + ["caf\xe9", "a:b", "100%", "%41"]), "client_secret": rng.choice(VALS[:6] + ["\xff\xfe", "s%3Ax", ""]), "domain": False})
        out.append({"op": "bearer", "token": rng.choice(["tok", "a.b-c_d~e+f/g=", "t k", "", "ü", " x"]), "existing": rng.choice(EXISTING)})
        q = "".join(rng.choice("ab=&%+;2G ~é") for _ in range(rng.randint(0, 12)))
        out.append({"op": "parse_qsl", "query": q})
        out.append({"op": "parse_code", "existing": rng.choice(EXISTING + ["code=old", "state=old&code=old"]), "code": rng.choice(VALS), "state_sent": rng.choice([None, ""] + VALS),
                    "state_expected": rng.choice([None, ""] + VALS), "same": rng.random() < 0.5})
        out.append({"op": "parse_implicit", "existing": rng.choice(["", "frag=1", "access_token=old"]), "token": rng.choice(VALS + [""]), "token_type": rng.choice(["Bearer", "", None]),
                    "state_sent": rng.choice([None, ""] + VALS), "state_expected": rng.choice([None, ""] + VALS), "same": rng.random() < 0.5})
    hdrs = [None, "", "Basic", "Basic ", " ", "Basic  ", " Basic", "Basic x", "basic {b}", "BASIC {b}", "Basic  {b}", "Basic\t{b}", "Basic {b} ", "Basic {b}=",
            "Bearer {b}", "Basic {b} junk", "Basic\xa0{b}", "Basic !{b}", "Basi {b}"]
    creds = [b"a:b", b"app:s3cr3t", b"nocolon", b":x", b"a:", b"a:b:c", b"%61pp:p%3Aw", b"\xff\xfe:x", b"caf\xc3\xa9:x", b"a%zz:b", b""]
    for h in hdrs:
        for cr in creds:
            out.append({"op": "extract_basic", "header": None if h is None else h.replace("{b}", base64.b64encode(cr).decode())})
    return out


GRANTS = ["authorization_code", "password", "client_credentials", "refresh_token", "implicit"]
AUTHS = ["client_secret_basic", "client_secret_post", "none"]


def e2e_cases(rng, tier):
    out = []
    n = 60 if tier == "quick" else 1200
    for _ in range(n):
        auth = rng.choice(AUTHS)
        cid = rng.choice([v for v in ASCII_BASIC if ":" not in v] if auth == "client_secret_basic" else VALS)
        sec = rng.choice(ASCII_BASIC if auth == "client_secret_basic" else VALS)
        out.append({"op": "e2e", "grant": rng.choice(GRANTS[:4]), "auth": auth, "client_id": cid, "client_secret": sec,
                    "code": rng.choice(VALS), "verifier": rng.choice([None, "v" * 43, "A-._~" * 10]), "redirect_uri": rng.choice([None, "https://c.example/cb?x=1&y=a b"]),
                    "scope": rng.choice([None, "a b", ["a", "b"], "sp ace ü"]), "username": rng.choice(VALS), "password": rng.choice(VALS), "refresh": rng.choice(VALS),
                    "placement": rng.choice(["header", "body", "uri"]), "token": rng.choice(["tok", "a.b-c_d~e+f/g="])})
    return out


def e2e_jwt_cases(rng, tier):
    """the two JWT client-authentication methods and the RFC 7521 assertion clients (requests, httpx, async httpx)"""
    out = []
    n = 24 if tier == "quick" else 400
    for i in range(n):
        out.append({"op": "e2e_jwtauth", "auth": ["client_secret_jwt", "private_key_jwt"][i % 2], "client_id": rng.choice(VALS), "client_secret": rng.choice(VALS[:8]) * 4,
                    "grant": rng.choice(["client_credentials", "authorization_code", "password"]), "code": rng.choice(VALS), "scope": rng.choice([None, "a b", "sp ace ü"]),
                    "username": rng.choice(VALS), "password": rng.choice(VALS), "token": "tok", "placement": "header", "redirect_uri": None, "verifier": None, "refresh": "r"})
        if i % 3 == 0:
            out[-1]["token_url"] = ["https://as.example/token?tenant=a%20b", "https://as.example/t/token?x=1&y=2"][i % 2]       # a token endpoint URL with a query component
        out.append({"op": "e2e_assertion", "issuer": rng.choice(VALS), "subject": rng.choice(VALS + [None]), "audience": rng.choice([None, "https://as.example/token", "aud é&="]),
                    "scope": rng.choice([None, "a b", "sp ace ü"]), "claims": rng.choice([None, {"x": "y é"}]), "alg": ["HS256", "RS256"][i % 2], "token": "tok",
                    "placement": rng.choice(["header", "body", "uri"])})
    return out


def e2e_state_cases(rng, tier):
    out = []
    sts = [None, "", "S1", "S 2&x=y", "ü"]
    for kind in ("implicit", "code"):
        for sent in sts:
            for exp in sts:
                for via in ("arg", "ctor", "kwarg"):
                    out.append({"op": "e2e_state", "kind": kind, "state_sent": sent, "state_expected": exp, "via": via, "code": "c0de+ /", "token": "t0k"})
    return out


PKCE_VERIFIERS = ["v" * 43, "A-._~" * 10, "-" * 43, "_" * 128, "~." * 30, "0123456789" * 5, "dBjftJeZ4CVP-mB92K27uhbUJU1p1r_wW1gFWFOEjXk", "a-" * 64, "Z" * 128,
                  # … and strings RFC 7636 does not admit as verifiers: the server must refuse them
                  "v" * 42, "v" * 129, "v" * 42 + "+", "v" * 42 + " ", "v" * 42 + "=", "é" * 43]


def e2e_pkce_cases(rng, tier):
    """PKCE end to end: the client's authorization URL and token request against the real provider with the RFC 7636 extension required"""
    return [{"op": "e2e_pkce", "verifier": v, "method": m, "state": st} for v in PKCE_VERIFIERS for m in ("S256", "plain") for st in ("S1", "s 2&x=y")]


def e2e_implicit_cases():
    """an implicit response produced by the real provider (whose token generator adds members of its own) parsed back by the three clients: the same token fields"""
    return [{"op": "e2e_implicit", "extra": ex, "state": st} for ex in ({}, {"example_parameter": "example value & more"}, {"tenant": "t-1", "x": "ü"}) for st in ("S1", "s 2&x=y")]


def e2e_implicit(c):
    import memserver as ms
    import httpx
    from authlib.integrations.requests_client import OAuth2Session
    from authlib.integrations.httpx_client import OAuth2Client, AsyncOAuth2Client
    store, srv, rp = ms.build(oidc=False)
    store.clients["pk"] = ms.Client("pk", "", ["https://c.example/cb"], "a b", ms.ALL_GRANT_TYPES, ms.ALL_RESPONSE_TYPES, "none")

    def gen(grant_type, client, user=None, scope=None, expires_in=None, include_refresh_token=True):
        return dict({"token_type": "Bearer", "access_token": "at-implicit", "expires_in": 3600, "scope": scope}, **c["extra"])
    srv.register_token_generator("default", gen)
    r = srv.create_authorization_response(ms.Req("POST", "https://as.example/authorize", dict(response_type="token", client_id="pk", scope="a", state=c["state"], redirect_uri="https://c.example/cb")),
                                          grant_user=store.users[1])
    loc = dict(r.headers).get("Location", "")
    out = {"location_ok": loc.startswith("https://c.example/cb#")}
    for name, cls in (("requests", OAuth2Session), ("httpx", OAuth2Client), ("async", AsyncOAuth2Client)):
        try:
            s = cls("pk", None, token_endpoint_auth_method="none")
            tok = s.fetch_token(authorization_response=loc, state=c["state"])
            if name == "async":
                async def go(tok=tok, s=s):
                    import inspect
                    if inspect.isawaitable(tok):
                        tok = await tok
                    await s.aclose()
                    return tok
                tok = asyncio.run(go())
            out[name] = {k: v for k, v in dict(tok).items() if k not in ("expires_at", "state")}
        except Exception as e:
            out[name] = {"raised": type(e).__name__ + ": " + str(e)[:80]}
    return out


def cases(rng, tier):
    return _cases(rng, tier) + e2e_jwt_cases(rng, tier) + e2e_pkce_cases(rng, tier) + e2e_implicit_cases()


def _cases(rng, tier):
    return fn_cases(rng, tier) + e2e_cases(rng, tier) + e2e_state_cases(rng, tier)


def scope_str(sc):
    from authlib.oauth2.rfc6749.util import list_to_scope
    return list_to_scope(sc)


def model_line(c):
    op = c["op"]
    if op == "token_request":
        kw = [[hx(k), hx(scope_str(v) if k == "scope" else v)] for k, v in c["kwargs"]]
        return {"op": op, "grant_type": hx(c["grant_type"]), "body": hx(c["body"]), "redirect_uri": hx(c["redirect_uri"]), "kwargs": kw}
    if op == "grant_query":
        sc = c["scope"]
        return {"op": op, "query": hx(c["query"]), "client_id": hx(c["client_id"]), "response_type": hx(c["response_type"]), "redirect_uri": hx(c["redirect_uri"]),
                "scope": hx(scope_str(sc) if sc else (None if sc is None else "")), "state": hx(c["state"]), "kwargs": [[hx(k), hx(v)] for k, v in c["kwargs"]]}
    if op == "secret_post":
        return {"op": op, "body": hx(c["body"]), "client_id": hx(c["client_id"]), "client_secret": hx(c["client_secret"])}
    if op == "none":
        return {"op": op, "body": hx(c["body"]), "client_id": hx(c["client_id"])}
    if op == "basic":
        try:
            return {"op": op, "client_id": hx(c["client_id"], "latin1"), "client_secret": hx(c["client_secret"], "latin1")}
        except UnicodeEncodeError:
            return None
    if op == "extract_basic":
        return {"op": op, "header": hx(c["header"], "latin1")}
    if op == "bearer":
        return {"op": op, "token": hx(c["token"]), "existing": hx(c["existing"])}
    if op == "parse_qsl":
        return {"op": op, "query": hx(c["query"])}
    if op == "parse_code":
        o = impl(c)
        return {"op": op, "query": o["_query"], "state": hx(c["state_sent"] if c["same"] else c["state_expected"])}
    if op == "parse_implicit":
        o = impl(c)
        return {"op": op, "fragment": o["_fragment"], "state": hx(c["state_sent"] if c["same"] else c["state_expected"])}
    return None


def _server_query(uri):
    """the query as the library's server half reads it (OAuth2Request): every pair, in order"""
    try:
        return [[k, v] for k, v in OAuth2Request("GET", uri)._parse_query()]
    except Exception as e:
        return [["<error>", type(e).__name__]]


def pairs(bs):
    # octet-level parse: latin-1 in, latin-1 out
    return [[k.encode("latin1").hex(), v.encode("latin1").hex()]
            for k, v in parse_qsl(bs.decode("latin1"), keep_blank_values=True, encoding="latin1")]


class _Cl:
    pass


PARSE_ERR = {oe.MissingCodeException: "missing_code", oe.MissingTokenException: "missing_token", oe.MissingTokenTypeException: "missing_token_type",
             oe.MismatchingStateException: "mismatching_state"}


def impl(c):
    op = c["op"]
    if op == "token_request":
        kw = {k: v for k, v in c["kwargs"]}
        body = prepare_token_request(c["grant_type"], c["body"], c["redirect_uri"], **kw)
        return {"out": body.encode().hex(), "parsed": pairs(body.encode())}
    if op == "grant_query":
        uri = "https://as.example/authorize" + ("?" + c["query"] if c["query"] else "") + ("#" + c["fragment"] if c["fragment"] else "")
        kw = {k: v for k, v in c["kwargs"]}
        r = prepare_grant_uri(uri, c["client_id"], c["response_type"], c["redirect_uri"], c["scope"], c["state"], **kw)
        u = urlparse(r)
        return {"out": u.query.encode().hex(), "parsed": pairs(u.query.encode()), "_rest": [u.scheme, u.netloc, u.path, u.fragment],
                "_server": _server_query(r)}
    if op == "revoke_request":
        from authlib.oauth2.rfc7009.parameters import prepare_revoke_token_request
        body, _ = prepare_revoke_token_request(c["token"], c["hint"], c["body"], None)
        return {"parsed": pairs(body.encode())}
    if op == "jwt_auth_fn":
        from authlib.oauth2.rfc7523 import ClientSecretJWT, PrivateKeyJWT
        url = "https://as.example/token"
        meth = ClientSecretJWT(url) if c["method"] == "client_secret_jwt" else PrivateKeyJWT(url)
        secret = "s" * 40 if c["method"] == "client_secret_jwt" else _rsa()[0]
        auth = ClientAuth(c["client_id"], secret, meth)
        _, h, body = auth.prepare("POST", url, {}, c["body"])
        # a second token-endpoint request from the same client object: read back by the server half with its jti store (replay protection)
        _, _, body2 = auth.prepare("POST", url, {}, c["body"])
        from authlib.oauth2.rfc7523 import JWTBearerClientAssertion
        seen = set()

        class JA(JWTBearerClientAssertion):
            def validate_jti(self, claims, jti):
                fresh = jti not in seen
                seen.add(jti)
                return fresh
        ja = JA(url)
        key = secret if c["method"] == "client_secret_jwt" else _rsa()[1]
        verdicts = []
        for b in (body, body2):
            try:
                cl = ja.process_assertion_claims(dict(parse_qsl(b, keep_blank_values=True)).get("client_assertion"), lambda headers, payload: key)
                verdicts.append(cl.get("sub"))
            except Exception as e:
                verdicts.append("refused: " + str(getattr(e, "description", e))[:60])
        return {"parsed": pairs(body.encode()), "two_requests": verdicts}
    if op == "secret_post":
        _, h, body = ClientAuth(c["client_id"], c["client_secret"], "client_secret_post").prepare("POST", "https://as.example/token", {}, c["body"])
        return {"out": body.encode().hex(), "parsed": pairs(body.encode())}
    if op == "none":
        if c["method"] == "GET":
            uri, h, body = ClientAuth(c["client_id"], None, "none").prepare("GET", "https://as.example/token" + ("?" + c["body"] if c["body"] else ""), {}, "")
            q = urlparse(uri).query
            return {"out": q.encode().hex(), "parsed": pairs(q.encode())}
        _, h, body = ClientAuth(c["client_id"], None, "none").prepare("POST", "https://as.example/token", {}, c["body"])
        return {"out": body.encode().hex(), "parsed": pairs(body.encode())}
    if op == "basic":
        try:
            _, h, _ = ClientAuth(c["client_id"], c["client_secret"], "client_secret_basic").prepare("POST", "https://as.example/token", {}, "")
        except UnicodeEncodeError:
            return {"client_error": "UnicodeEncodeError"}
        a, b = extract_basic_authorization(h)
        return {"out": h["Authorization"].encode("latin1").hex(), "id": hx(a), "secret": hx(b)}
    if op == "extract_basic":
        try:
            a, b = extract_basic_authorization({} if c["header"] is None else {"Authorization": c["header"]})
        except Exception as e:
            return {"raised": type(e).__name__}
        return {"id": hx(a), "secret": hx(b)}
    if op == "bearer":
        t = c["token"]
        _, h, _ = TokenAuth({"access_token": t, "token_type": "bearer"}, "header").prepare("https://rs/x", {}, "")
        _, _, body = TokenAuth({"access_token": t, "token_type": "bearer"}, "body").prepare("https://rs/x", {}, c["existing"])
        uri, _, _ = TokenAuth({"access_token": t, "token_type": "bearer"}, "uri").prepare("https://rs/x" + ("?" + c["existing"] if c["existing"] else ""), {}, "")
        rp = ResourceProtector(); rp.register_token_validator(BearerTokenValidator())
        class R: headers = h
        try:
            v, ts = rp.parse_request_authorization(R)
            split = ["Bearer".encode().hex(), ts.encode().hex()]
        except Exception:
            split = None
        return {"header": h["Authorization"].encode().hex(), "qs": body.encode().hex(), "parsed": pairs(body.encode()), "split": split,
                "_uri_q": urlparse(uri).query.encode().hex()}
    if op == "parse_qsl":
        return {"parsed": pairs(c["query"].encode())}
    if op in ("parse_code", "parse_implicit"):
        base = "https://c.example/cb"
        frag = op == "parse_implicit"
        if frag:
            params = [("access_token", c["token"])] + ([("token_type", c["token_type"])] if c["token_type"] is not None else [])
            base += ("#" + c["existing"]) if c["existing"] else ""
        else:
            params = [("code", c["code"])]
            base += ("?" + c["existing"]) if c["existing"] else ""
        if c["state_sent"]:
            params.append(("state", c["state_sent"]))
        uri = add_params_to_uri(base, params, fragment=frag)
        expected = c["state_sent"] if c["same"] else c["state_expected"]
        u = urlparse(uri)
        try:
            r = (parse_implicit_response if frag else parse_authorization_code_response)(uri, expected)
            if frag:
                out = {"access_token": hx(r["access_token"]), "token_type": hx(r["token_type"]), "state": hx(r.get("state"))}
            else:
                out = {"code": hx(r["code"]), "state": hx(r.get("state"))}
        except tuple(PARSE_ERR) as e:
            out = {"error": PARSE_ERR[type(e)]}
        out["_query"], out["_fragment"] = u.query.encode().hex(), u.fragment.encode().hex()
        return out
    if op == "e2e":
        return e2e(c)
    if op == "e2e_state":
        return e2e_state(c)
    if op == "e2e_jwtauth":
        return e2e_jwtauth(c)
    if op == "e2e_assertion":
        return e2e_assertion(c)
    if op == "e2e_pkce":
        return e2e_pkce(c)
    if op == "e2e_implicit":
        return e2e_implicit(c)
    raise AssertionError(op)


def project(c, out):
    return {k: v for k, v in out.items() if not k.startswith("_")}


# ---------------------------------------------------------------- three client implementations, recording transports
def _record_requests(c):
    import requests
    from requests.adapters import BaseAdapter
    from authlib.integrations.requests_client import OAuth2Session
    rec = []

    class A(BaseAdapter):
        def send(self, request, **kw):
            body = request.body
            if isinstance(body, bytes):
                body = body.decode()
            rec.append((request.method, request.url, {k: v for k, v in request.headers.items()}, body or ""))
            r = requests.Response(); r.status_code = 200; r.request = request
            r._content = json.dumps({"access_token": c["token"], "token_type": "bearer"}).encode()
            r.headers["Content-Type"] = "application/json"
            return r

        def close(self):
            pass
    s = OAuth2Session(c["client_id"], c["client_secret"] if c["auth"] != "none" else None, token_endpoint_auth_method=c["auth"],
                      scope=c["scope"], redirect_uri=c["redirect_uri"], token_placement=c["placement"], **({"state": c["ctor_state"]} if "ctor_state" in c else {}))
    s.mount("https://", A())
    return s, rec


def _record_httpx(c, is_async):
    import httpx
    from authlib.integrations.httpx_client import OAuth2Client, AsyncOAuth2Client
    rec = []

    def handler(request):
        rec.append((request.method, str(request.url), dict(request.headers), request.content.decode()))
        return httpx.Response(200, json={"access_token": c["token"], "token_type": "bearer"})

    async def ahandler(request):
        return handler(request)
    cls = AsyncOAuth2Client if is_async else OAuth2Client
    s = cls(c["client_id"], c["client_secret"] if c["auth"] != "none" else None, token_endpoint_auth_method=c["auth"], scope=c["scope"],
            redirect_uri=c["redirect_uri"], token_placement=c["placement"], transport=httpx.MockTransport(ahandler if is_async else handler),
            **({"state": c["ctor_state"]} if "ctor_state" in c else {}))
    return s, rec


def _drive(s, c, is_async):
    kw = {}
    g = c["grant"]
    if g == "authorization_code":
        kw = dict(code=c["code"], grant_type="authorization_code")
        if c["verifier"]:
            kw["code_verifier"] = c["verifier"]
    elif g == "password":
        kw = dict(username=c["username"], password=c["password"], grant_type="password")
    elif g == "client_credentials":
        kw = dict(grant_type="client_credentials")
    elif g == "refresh_token":
        kw = None
    url = c.get("token_url", "https://as.example/token")
    if is_async:
        async def go():
            if kw is None:
                await s.refresh_token(url, refresh_token=c["refresh"])
            else:
                await s.fetch_token(url, **kw)
            await s.post("https://rs.example/api?keep=1", data={"k": "v"})
            await s.aclose()
        asyncio.run(go())
    else:
        if kw is None:
            s.refresh_token(url, refresh_token=c["refresh"])
        else:
            s.fetch_token(url, **kw)
        s.post("https://rs.example/api?keep=1", data={"k": "v"})


def _server_view(req):
    """parse a captured wire request with the library's own server half"""
    method, url, headers, body = req
    hdr = {"Authorization": headers[k] for k in headers if k.lower() == "authorization"}
    # a server reads exactly Content-Length octets of the body
    cl = [headers[k] for k in headers if k.lower() == "content-length"]
    if cl and str(cl[0]).isdigit():
        body = body.encode("utf-8")[:int(cl[0])].decode("utf-8", "replace")
    form = dict(parse_qsl(body, keep_blank_values=True))
    r = OAuth2Request(method, url, form, hdr)
    bid, bsec = extract_basic_authorization(r.headers)
    view = {"form": sorted(r.form.items()), "args": sorted(r.args.items()), "basic": [bid, bsec]}
    if hdr.get("Authorization", "").lower().startswith("bearer"):
        rp = ResourceProtector(); rp.register_token_validator(BearerTokenValidator())
        view["bearer"] = rp.parse_request_authorization(r)[1]
    return view


def e2e(c):
    out = {}
    for name, mk, is_async in (("requests", _record_requests, False), ("httpx", lambda c: _record_httpx(c, False), False), ("async", lambda c: _record_httpx(c, True), True)):
        try:
            s, rec = mk(c)
            _drive(s, c, is_async)
            out[name] = [_server_view(r) for r in rec]
        except Exception as e:
            out[name] = {"raised": type(e).__name__ + ": " + str(e)[:100]}
    return out


def e2e_pkce(c):
    import memserver as ms
    import httpx, requests
    from requests.adapters import BaseAdapter
    from authlib.integrations.requests_client import OAuth2Session
    from authlib.integrations.httpx_client import OAuth2Client, AsyncOAuth2Client
    from authlib.integrations.base_client.errors import OAuthError
    out = {}
    for name in ("requests", "httpx", "async"):
        store, srv, rp = ms.build(oidc=False, pkce_required=True)
        store.clients["pk"] = ms.Client("pk", "", ["https://c.example/cb"], "a b", ms.ALL_GRANT_TYPES, ms.ALL_RESPONSE_TYPES, "none")
        seen = {}

        def serve(method, url, headers, body):
            form = dict(parse_qsl(body, keep_blank_values=True))
            seen["verifier"] = form.get("code_verifier")
            r = srv.create_token_response(ms.Req(method, url, form, {k: v for k, v in headers.items() if k.lower() == "authorization"}))
            return r.status, r.body
        kw = dict(token_endpoint_auth_method="none", scope="a", redirect_uri="https://c.example/cb")
        if c["method"] == "S256":
            kw["code_challenge_method"] = "S256"
        try:
            if name == "requests":
                class A(BaseAdapter):
                    def send(self, request, **k2):
                        b = request.body.decode() if isinstance(request.body, bytes) else (request.body or "")
                        st, body = serve(request.method, request.url, dict(request.headers), b)
                        r = requests.Response(); r.status_code = st; r.request = request
                        r._content = json.dumps(body).encode(); r.headers["Content-Type"] = "application/json"
                        return r

                    def close(self):
                        pass
                s = OAuth2Session("pk", None, **kw); s.mount("https://", A())
            else:
                def handler(request):
                    st, body = serve(request.method, str(request.url), dict(request.headers), request.content.decode())
                    return httpx.Response(st, json=body)

                async def ahandler(request):
                    return handler(request)
                s = (AsyncOAuth2Client if name == "async" else OAuth2Client)("pk", None, transport=httpx.MockTransport(ahandler if name == "async" else handler), **kw)
            extra = {"code_verifier": c["verifier"]} if c["method"] == "S256" else {"code_challenge": c["verifier"], "code_challenge_method": "plain"}
            url, state = s.create_authorization_url("https://as.example/authorize", state=c["state"], **extra)
            r = srv.create_authorization_response(ms.Req("GET", url, {}, {}), grant_user=store.users[1])
            loc = dict(r.headers).get("Location", "")
            res = {"authorize": r.status, "code_issued": "code=" in loc}
            if res["code_issued"]:
                try:
                    if name == "async":
                        async def go():
                            t = await s.fetch_token("https://as.example/token", authorization_response=loc, code_verifier=c["verifier"])
                            await s.aclose()
                            return t
                        tok = asyncio.run(go())
                    else:
                        tok = s.fetch_token("https://as.example/token", authorization_response=loc, code_verifier=c["verifier"])
                    res["token"] = bool(tok.get("access_token"))
                except OAuthError as e:
                    res["token"], res["error"] = False, e.error
                res["verifier_recovered"] = seen.get("verifier") == c["verifier"]
            out[name] = res
        except Exception as e:
            out[name] = {"raised": type(e).__name__ + ": " + str(e)[:100]}
    return out


_KEYS = {}


def _rsa():
    if not _KEYS:
        from authlib.jose import JsonWebKey
        k = JsonWebKey.generate_key("RSA", 2048, is_private=True)
        _KEYS["priv"], _KEYS["pub"] = k.as_pem(is_private=True), k.as_pem()
    return _KEYS["priv"], _KEYS["pub"]


def e2e_jwtauth(c):
    from authlib.oauth2.rfc7523 import ClientSecretJWT, PrivateKeyJWT, JWTBearerClientAssertion
    url = c.get("token_url", "https://as.example/token")
    priv, pub = _rsa()
    out = {}
    for name, mk, is_async in (("requests", _record_requests, False), ("httpx", lambda c: _record_httpx(c, False), False), ("async", lambda c: _record_httpx(c, True), True)):
        try:
            cc = dict(c, client_secret=c["client_secret"] if c["auth"] == "client_secret_jwt" else priv)
            s, rec = mk(cc)
            s.register_client_auth_method(ClientSecretJWT(url) if c["auth"] == "client_secret_jwt" else PrivateKeyJWT(url))
            _drive(s, c, is_async)
            view = _server_view(rec[0])
            form = dict(view["form"])
            # the server half: RFC 7523 client assertion processing with the key registered for the client
            ja = JWTBearerClientAssertion(url, validate_jti=False)
            key = c["client_secret"] if c["auth"] == "client_secret_jwt" else pub
            try:
                claims = ja.process_assertion_claims(form.get("client_assertion"), lambda headers, payload: key)
                got = {"iss": claims.get("iss"), "sub": claims.get("sub"), "aud": claims.get("aud")}
            except Exception as e:
                got = {"server_error": type(e).__name__ + ": " + str(getattr(e, "description", e))[:80]}
            out[name] = {"assertion_type": form.get("client_assertion_type"), "claims": got, "client_secret_in_form": "client_secret" in form,
                         "form": sorted((k, v) for k, v in form.items() if k not in ("client_assertion",)), "requests": len(rec)}
        except Exception as e:
            out[name] = {"raised": type(e).__name__ + ": " + str(e)[:100]}
    return out


def e2e_assertion(c):
    from authlib.integrations.requests_client import AssertionSession
    from authlib.integrations.httpx_client import AssertionClient, AsyncAssertionClient
    from authlib.oauth2.rfc7523 import JWTBearerGrant
    import httpx, requests
    from requests.adapters import BaseAdapter
    url = "https://as.example/token"
    priv, pub = _rsa()
    key, vkey = ("k" * 32, "k" * 32) if c["alg"] == "HS256" else (priv, pub)
    kw = dict(token_endpoint=url, issuer=c["issuer"], subject=c["subject"], audience=c["audience"], claims=c["claims"], scope=c["scope"], token_placement=c["placement"],
              key=key, alg=c["alg"])
    out = {}
    for name in ("requests", "httpx", "async"):
        rec = []
        try:
            if name == "requests":
                class A(BaseAdapter):
                    def send(self, request, **kw_):
                        body = request.body.decode() if isinstance(request.body, bytes) else (request.body or "")
                        rec.append((request.method, request.url, dict(request.headers), body))
                        r = requests.Response(); r.status_code = 200; r.request = request
                        r._content = json.dumps({"access_token": c["token"], "token_type": "bearer", "expires_in": 3600}).encode()
                        r.headers["Content-Type"] = "application/json"
                        return r
                    def close(self):
                        pass
                s = AssertionSession(**kw)
                s.mount("https://", A())
                s.post("https://rs.example/api?keep=1", data={"k": "v"})
            else:
                def handler(request):
                    rec.append((request.method, str(request.url), dict(request.headers), request.content.decode()))
                    return httpx.Response(200, json={"access_token": c["token"], "token_type": "bearer", "expires_in": 3600})
                if name == "httpx":
                    s = AssertionClient(**kw, transport=httpx.MockTransport(handler))
                    s.post("https://rs.example/api?keep=1", data={"k": "v"})
                else:
                    async def ahandler(request):
                        return handler(request)
                    async def go():
                        s = AsyncAssertionClient(**kw, transport=httpx.MockTransport(ahandler))
                        await s.post("https://rs.example/api?keep=1", data={"k": "v"})
                        await s.aclose()
                    asyncio.run(go())
            views = [_server_view(r) for r in rec]
            form = dict(views[0]["form"]) if views else {}
            try:
                from authlib.jose import jwt as _jwt
                cl = _jwt.decode(form.get("assertion"), vkey)
                got = {k: cl.get(k) for k in ("iss", "sub", "aud", "x")}
            except Exception as e:
                got = {"server_error": type(e).__name__}
            res = views[1] if len(views) > 1 else {}
            pl = c["placement"]
            bearer = res.get("bearer") if pl == "header" else dict(res.get("form", [])).get("access_token") if pl == "body" else dict(res.get("args", [])).get("access_token")
            out[name] = {"grant_type": form.get("grant_type"), "scope": form.get("scope"), "claims": got, "requests": len(rec), "bearer": bearer,
                         "kept": [dict(res.get("args", [])).get("keep"), dict(res.get("form", [])).get("k")]}
        except Exception as e:
            out[name] = {"raised": type(e).__name__ + ": " + str(e)[:100]}
    return out


def e2e_state(c):
    """the callback half of the three clients: state check and what is then sent to the token endpoint"""
    from authlib.oauth2.rfc6749.errors import MismatchingStateException
    params = [("access_token", c["token"]), ("token_type", "bearer")] if c["kind"] == "implicit" else [("code", c["code"])]
    if c["state_sent"]:
        params.append(("state", c["state_sent"]))
    resp = add_params_to_uri("https://c.example/cb?keep=1", params, fragment=c["kind"] == "implicit")
    out = {}
    base = {"client_id": "cid", "client_secret": "sec", "auth": "client_secret_post", "scope": None, "redirect_uri": None, "placement": "header", "token": c["token"]}
    for name, mk, is_async in (("requests", _record_requests, False), ("httpx", lambda x: _record_httpx(x, False), False), ("async", lambda x: _record_httpx(x, True), True)):
        s, rec = mk(dict(base, ctor_state=c["state_expected"]) if c["via"] == "kwarg" else base)
        kw = {}
        if c["via"] == "arg":
            kw["state"] = c["state_expected"]
        elif c["via"] == "ctor":
            s.state = c["state_expected"]
        try:
            if c["kind"] == "implicit":
                r = s.fetch_token(authorization_response=resp, **kw)
            else:
                r = s.fetch_token("https://as.example/token", authorization_response=resp, **kw)
            if is_async:
                async def go(r=r, s=s):
                    import inspect
                    if inspect.isawaitable(r):
                        r = await r
                    await s.aclose()
                    return r
                r = asyncio.run(go())
            sent_code = dict(parse_qsl(rec[0][3])).get("code") if rec else None
            out[name] = {"token": r.get("access_token"), "sent_code": sent_code, "requests": len(rec)}
        except MismatchingStateException:
            out[name] = {"error": "mismatching_state", "requests": len(rec)}
        except Exception as e:
            out[name] = {"raised": type(e).__name__}
    return out


def oracle(c, out):
    op = c["op"]
    v = []
    if op == "e2e_state":
        mismatch = bool(c["state_expected"]) and (c["state_sent"] or None) != c["state_expected"]
        for name, o in out.items():
            if mismatch:
                if o != {"error": "mismatching_state", "requests": 0}:
                    v.append((f"{name} client: differing state not reported as a mismatch before any request ({o})",
                              {"op": op, "kind": "state-mismatch-missed", "flow": c["kind"], "client": name}))
            else:
                want = {"token": c["token"], "sent_code": None if c["kind"] == "implicit" else c["code"], "requests": 0 if c["kind"] == "implicit" else 1}
                if o != want:
                    v.append((f"{name} client: callback gave {o}, expected {want}", {"op": op, "kind": "callback-wrong", "flow": c["kind"], "client": name}))
        return v
    def bad(what, **sig):
        v.append((what, dict(sig, op=op)))
    if op == "token_request":
        exp = pairs(c["body"].encode()) + [[hx("grant_type"), hx(c["grant_type"])]]
        if c["redirect_uri"]:
            exp.append([hx("redirect_uri"), hx(c["redirect_uri"])])
        for k, val in c["kwargs"]:
            val = scope_str(val) if k == "scope" else val
            if val:
                exp.append([hx(k), hx(val)])
        if out["parsed"] != exp:
            bad("token request body does not parse back to existing ++ emitted parameters", kind="roundtrip")
    elif op == "grant_query":
        exp = pairs(c["query"].encode()) + [[hx("response_type"), hx(c["response_type"])], [hx("client_id"), hx(c["client_id"])]]
        if c["redirect_uri"]:
            exp.append([hx("redirect_uri"), hx(c["redirect_uri"])])
        if c["scope"]:
            exp.append([hx("scope"), hx(scope_str(c["scope"]))])
        if c["state"]:
            exp.append([hx("state"), hx(c["state"])])
        exp += [[hx(k), hx(val)] for k, val in c["kwargs"]]
        if out["parsed"] != exp:
            bad("authorization URL query does not parse back to existing ++ emitted parameters", kind="roundtrip")
        if [[k.encode().hex(), val.encode().hex()] for k, val in out["_server"]] != exp:
            bad("the library's server half (OAuth2Request) reads different parameters from the authorization URL than the client put there", kind="server-parse")
        if out["_rest"] != ["https", "as.example", "/authorize", c["fragment"]]:
            bad("another URL component was altered", kind="component")
    elif op == "revoke_request":
        want = pairs(c["body"].encode()) + [[hx("token"), hx(c["token"])]] + ([[hx("token_type_hint"), hx(c["hint"])]] if c["hint"] else [])
        if out["parsed"] != want:
            bad(f"revocation / introspection request body: adding token (and hint) to {c['body']!r} gives {[(bytes.fromhex(k).decode('utf-8', 'replace'), bytes.fromhex(v).decode('utf-8', 'replace')) for k, v in out['parsed']]}",
                kind="roundtrip", detail="revoke-body")
    elif op == "jwt_auth_fn":
        if out["two_requests"] != [c["client_id"], c["client_id"]]:
            bad(f"{c['method']}: two token-endpoint requests prepared by one client object are read by the server half (with its jti store) as {out['two_requests']}, "
                f"the client is {c['client_id']!r} both times", kind="auth-altered", detail="second-request")
        exist = pairs(c["body"].encode())
        got = out["parsed"]
        names = [bytes.fromhex(k).decode() for k, _ in got[len(exist):]]
        if got[:len(exist)] != exist or names != ["client_assertion_type", "client_assertion"]:
            bad(f"{c['method']}: the body after adding the assertion does not keep the existing parameters in place followed by the two assertion parameters "
                f"(existing {c['body']!r}, names now {[bytes.fromhex(k).decode('utf-8', 'replace') for k, _ in got]})", kind="roundtrip")
    elif op == "secret_post":
        if out["parsed"] != pairs(c["body"].encode()) + [[hx("client_id"), hx(c["client_id"])], [hx("client_secret"), hx(c["client_secret"])]]:
            bad("client_secret_post body does not round-trip", kind="roundtrip")
    elif op == "none":
        if out["parsed"] != pairs(c["body"].encode()) + [[hx("client_id"), hx(c["client_id"])]]:
            bad("auth method none does not round-trip", kind="roundtrip")
    elif op == "basic":
        if c["domain"] and (out.get("id") != hx(c["client_id"]) or out.get("secret") != hx(c["client_secret"])):
            bad(f"HTTP Basic credentials not recovered: {out}", kind="roundtrip")
    elif op == "extract_basic":
        if "raised" in out:
            bad(f"extract_basic_authorization raised {out['raised']}", kind="crash", exc=out["raised"])
    elif op == "bearer":
        t = c["token"]
        # (only white space at the token's edges cannot survive the header's "Bearer<SP>token" framing)
        if t and t.strip() == t and out["split"] != [hx("Bearer"), hx(t)]:
            bad("bearer token in header not recovered", kind="roundtrip", placement="header")
        exp = pairs(c["existing"].encode()) + [[hx("access_token"), hx(t)]]
        if out["parsed"] != exp:
            bad("bearer token in body not recovered / existing parameters altered", kind="roundtrip", placement="body")
        if pairs(bytes.fromhex(out["_uri_q"])) != exp:
            bad("bearer token in uri not recovered / existing parameters altered", kind="roundtrip", placement="uri")
    elif op == "parse_code":
        expected = c["state_sent"] if c["same"] else c["state_expected"]
        old = dict(parse_qsl(c["existing"]))           # a registered redirect URI that already carries code=/state= (contrived, but legal)
        sent = c["state_sent"] or old.get("state")
        if not c["code"] and "code" not in old:
            want = {"error": "missing_code"}
        elif expected and sent != expected:
            want = {"error": "mismatching_state"}
        else:
            want = {"code": hx(c["code"] or old.get("code")), "state": hx(sent)}
        if project(c, out) != want:
            bad(f"authorization response parsed to {project(c, out)}, expected {want}", kind="response-parse")
    elif op == "parse_implicit":
        expected = c["state_sent"] if c["same"] else c["state_expected"]
        sent = c["state_sent"] or None
        if c["token_type"] is None:
            want = {"error": "missing_token_type"}
        elif expected and sent != expected:
            want = {"error": "mismatching_state"}
        else:
            want = {"access_token": hx(c["token"]), "token_type": hx(c["token_type"]), "state": hx(sent)}
        if project(c, out) != want:
            bad(f"implicit response parsed to {project(c, out)}, expected {want}", kind="response-parse")
    elif op == "e2e":
        v += e2e_oracle(c, out)
    elif op == "e2e_jwtauth":
        for name in ("requests", "httpx", "async"):
            o = out[name]
            sig = {"op": op, "auth": c["auth"], "client": name}
            if "raised" in o:
                v.append((f"{name} client raised {o['raised']}", dict(sig, kind="client-raised"))); continue
            want = {"iss": c["client_id"], "sub": c["client_id"], "aud": c.get("token_url", "https://as.example/token")}
            if o["assertion_type"] != "urn:ietf:params:oauth:client-assertion-type:jwt-bearer" or o["claims"] != want:
                v.append((f"{name}: the server half reads the {c['auth']} assertion as {o['assertion_type']!r} / {o['claims']}, the client is {c['client_id']!r}", dict(sig, kind="auth-altered")))
            if o["client_secret_in_form"]:
                v.append((f"{name}: the client secret / private key travels in the form next to the assertion", dict(sig, kind="secret-on-wire")))
            form = dict(o["form"])
            if form.get("grant_type") != c["grant"] or (c["grant"] == "authorization_code" and form.get("code") != c["code"]):
                v.append((f"{name}: grant parameters altered: {o['form']}", dict(sig, kind="param-altered")))
        ok = [out[n] for n in ("requests", "httpx", "async") if "raised" not in out[n]]
        if len(ok) == 3 and not (ok[0] == ok[1] == ok[2]):
            v.append(("the three client implementations emit different requests (as read by the server half)", {"op": op, "kind": "clients-differ", "auth": c["auth"]}))
    elif op == "e2e_implicit":
        want = dict({"token_type": "Bearer", "access_token": "at-implicit", "expires_in": "3600", "scope": "a"}, **c["extra"])
        for name in ("requests", "httpx", "async"):
            got = out[name]
            norm = {k: (str(v) if k == "expires_in" else v) for k, v in got.items()} if "raised" not in got else got
            if norm != want:
                bad(f"{name}: the provider's implicit response (token generator adds {sorted(c['extra'])}) parses back to {got}, the server issued {want}", kind="response-parse", client=name, detail="implicit-e2e")
    elif op == "e2e_pkce":
        import re
        valid = re.fullmatch(r"[A-Za-z0-9\-._~]{43,128}", c["verifier"]) is not None
        for name in ("requests", "httpx", "async"):
            o = out[name]
            sig = {"op": op, "client": name, "method": c["method"]}
            if "raised" in o:
                if valid:
                    v.append((f"{name} client raised {o['raised']} on an RFC 7636 verifier", dict(sig, kind="client-raised")))
                continue
            if valid and not (o.get("code_issued") and o.get("token") and o.get("verifier_recovered")):
                v.append((f"{name}: PKCE ({c['method']}) with the RFC 7636 verifier {c['verifier']!r}: the provider's answer to the client's own requests was {o}; "
                          "challenge and verifier were not recovered as the client sent them", dict(sig, kind="pkce-roundtrip")))
            if not valid and o.get("token"):
                v.append((f"{name}: a token was issued for the code_verifier {c['verifier']!r}, which RFC 7636 does not admit", dict(sig, kind="pkce-invalid-accepted")))
        ok = [out[n] for n in ("requests", "httpx", "async") if "raised" not in out[n]]
        if len(ok) == 3 and not (ok[0] == ok[1] == ok[2]):
            v.append(("the three client implementations behave differently in the PKCE flow", {"op": op, "kind": "clients-differ"}))
    elif op == "e2e_assertion":
        for name in ("requests", "httpx", "async"):
            o = out[name]
            sig = {"op": op, "client": name}
            if "raised" in o:
                v.append((f"{name} assertion client raised {o['raised']}", dict(sig, kind="client-raised"))); continue
            want = {"iss": c["issuer"], "sub": c["subject"], "aud": c["audience"] or "https://as.example/token", "x": (c["claims"] or {}).get("x")}
            if o["claims"] != want or o["grant_type"] != "urn:ietf:params:oauth:grant-type:jwt-bearer":
                v.append((f"{name}: the server half reads the assertion as {o['grant_type']!r} / {o['claims']}, the client meant {want}", dict(sig, kind="assertion-altered")))
            if o["scope"] != c["scope"]:
                v.append((f"{name}: scope read back as {o['scope']!r}, client meant {c['scope']!r}", dict(sig, kind="param-altered", param="scope")))
            if o["requests"] != 2 or o["bearer"] != c["token"] or o["kept"] != ["1", "v"]:
                v.append((f"{name}: resource request after the assertion grant: {o}", dict(sig, kind="bearer-altered", placement=c["placement"])))
        ok = [out[n] for n in ("requests", "httpx", "async") if "raised" not in out[n]]
        if len(ok) == 3 and not (ok[0] == ok[1] == ok[2]):
            v.append(("the three assertion clients emit different requests (as read by the server half)", {"op": op, "kind": "clients-differ"}))
    return v


def e2e_oracle(c, out):
    v = []
    def bad(what, **sig):
        v.append((what, dict(sig, op="e2e", grant=c["grant"], auth=c["auth"])))
    for name in ("requests", "httpx", "async"):
        o = out[name]
        if isinstance(o, dict):
            bad(f"{name} client raised {o['raised']}", kind="client-raised", client=name); continue
        if len(o) != 2:
            bad(f"{name}: expected a token request and a resource request, saw {len(o)}", kind="wire-count", client=name); continue
        tok, res = o
        form = dict(tok["form"])
        want = {}
        g = c["grant"]
        if g == "authorization_code":
            want = {"grant_type": g, "code": c["code"]}
            if c["verifier"]: want["code_verifier"] = c["verifier"]
            if c["redirect_uri"]: want["redirect_uri"] = c["redirect_uri"]
        elif g == "password":
            want = {"grant_type": g, "username": c["username"]}
            if c["password"]: want["password"] = c["password"]
        elif g == "client_credentials":
            want = {"grant_type": g}
        elif g == "refresh_token":
            want = {"grant_type": g, "refresh_token": c["refresh"]}
        if g in ("password", "client_credentials") and c["scope"]:
            want["scope"] = scope_str(c["scope"])
        for k, val in want.items():
            if form.get(k) != val:
                bad(f"{name}: server reads {k}={form.get(k)!r}, client meant {val!r}", kind="param-altered", client=name, param=k)
        if c["auth"] == "client_secret_basic":
            if tok["basic"] != [c["client_id"], c["client_secret"]]:
                bad(f"{name}: Basic credentials read back as {tok['basic']}", kind="auth-altered", client=name)
        elif c["auth"] == "client_secret_post":
            if form.get("client_id") != c["client_id"] or form.get("client_secret", "") != c["client_secret"]:
                bad(f"{name}: post credentials read back as {form.get('client_id')!r}/{form.get('client_secret')!r}", kind="auth-altered", client=name)
        else:
            if form.get("client_id") != c["client_id"] or form.get("client_secret"):
                bad(f"{name}: none-auth client_id read back as {form.get('client_id')!r}", kind="auth-altered", client=name)
        pl = c["placement"]
        got = res.get("bearer") if pl == "header" else dict(res["form"]).get("access_token") if pl == "body" else dict(res["args"]).get("access_token")
        if got != c["token"]:
            bad(f"{name}: bearer token via {pl} read back as {got!r}", kind="bearer-altered", client=name, placement=pl)
        if dict(res["args"]).get("keep") != "1" or dict(res["form"]).get("k") != "v":
            bad(f"{name}: existing resource-request parameters altered", kind="existing-altered", client=name)
    ok = [out[n] for n in ("requests", "httpx", "async") if not isinstance(out[n], dict)]
    if len(ok) == 3 and not (ok[0] == ok[1] == ok[2]):
        bad("the three client implementations emit different requests (as read by the server half)", kind="clients-differ")
    return v


def classify(c, out):
    return c["op"] + ("/" + c.get("grant", "") if c["op"] == "e2e" else "") + ("/err" if isinstance(out, dict) and ("error" in out or "raised" in out) else "")


def nontrivial(c, out):
    s = json.dumps(c, ensure_ascii=False, default=list)
    return s if any(ch in s for ch in "&=#?+%✓éü ") else None


def search(breaks, rng, known, match_known):
    for c in cases(rng, "thorough"):
        o = impl(c)
        for what, sig in oracle(c, o):
            if match_known(known, sig) is None:
                return {"what": what, "sig": sig, "case": c, "impl": o}
    return None
