"""C14 — client integrations bind the callback to the session that started the flow (histories × configurations)."""
import clientworld as cw

RULE = ("one case = one history of begin-flow (authorize_redirect) / callback (authorize_access_token) / clock operations on the real Flask, Django or Starlette "
        "integration with 2 user sessions and 2 registered providers, session or shared-cache storage, PKCE and OpenID on/off; callback states drawn from own fresh, "
        "own consumed, other session's, other provider's, absent, garbage and key-collision strings; a recording transport stands for the token endpoint. "
        "Every step output and the final session / cache contents are compared with the Lean model; non-trivial = distinct history")
ASSUMPTIONS = ["state, code_verifier and nonce generation replaced by a deterministic counter (the values are opaque to the integration)",
               "the shared cache is a plain key-value object without expiry; framework sessions are dicts carried between requests by the harness",
               "OAuth 1 providers are driven with the PLAINTEXT signature method so that the token secret that signed the access-token request is visible on the wire"]

NAME_SETS = [["p1", "p2"], ["p1", "p2"], ["a", "a_b"]]


def mk_world(c):
    return cw.ClientWorld(c["fw"], c["names"], c["cache"], c["pkce"], c["openid"], oauth1=c.get("oauth1", False), rotate=c.get("rotate", False), discovery=c.get("discovery", False), ext_cache=c.get("ext_cache", False))


def run_op(w, op):
    k = op["op"]
    if k == "begin":
        return w.begin(op["sess"], op["name"], op["redirect"])
    if k == "callback":
        return w.callback(op["sess"], op["name"], op.get("state"), id_nonce=op.get("id_nonce", False), fail=op.get("fail", False), id_iss=op.get("id_iss", ""))
    return w.advance(op["dt"])


def gen_history(rng, cfg, length):
    w = mk_world(cfg)
    names = cfg["names"]
    ops = []
    begun = []      # (sess, name, state, nonce, consumed?)
    for _ in range(length):
        r = rng.random()
        if r < 0.4 or not begun:
            op = {"op": "begin", "sess": rng.choice([0, 1]), "name": rng.choice(names), "redirect": rng.choice(["https://rp/cb", "https://rp/cb2", None, "https://rp/cb?next=%2Fa#section", "https://rp/spa#/callback"])}
            o = w.begin(op["sess"], op["name"], op["redirect"])
            op["state"] = o["state"]
            op["data"] = w.peek(op["sess"], op["name"], o["state"])
            begun.append([op["sess"], op["name"], o["state"], o["url_nonce"], False])
        elif r < 0.93:
            b = rng.choice(begun)
            kind = rng.choice(["own", "own", "own", "own", "other-session", "other-session", "other-provider", "absent", "garbage", "collision"])
            sess, name, state = b[0], b[1], b[2]
            if kind == "other-session": sess = 1 - sess
            elif kind == "other-provider": name = [n for n in names if n != name][0]
            elif kind == "absent": state = None
            elif kind == "garbage": state = rng.choice(["zzz", "", "None", state + "x"])
            elif kind == "collision":
                # f"_state_{name}_{state}" is ambiguous when a provider name extends another one with '_'
                other = [n for n in names if n != name][0]
                if name.startswith(other + "_"): name, state = other, name[len(other) + 1:] + "_" + state
                elif other.startswith(name + "_") and state.startswith(other[len(name) + 1:] + "_"): name, state = other, state[len(other) - len(name):]
            idn = rng.choice([b[3], b[3], b[3], "wrong", None, False]) if cfg["openid"] else rng.choice([False, "x"])
            op = {"op": "callback", "sess": sess, "name": name, "state": state, "id_nonce": idn, "kind": kind, "fail": rng.random() < 0.2}
            if cfg["openid"] and rng.random() < 0.25:
                op["id_iss"] = rng.choice(["/", "x", ".evil.example"])      # the ID token names another issuer than the registered provider
            w.callback(sess, name, state, id_nonce=idn, fail=op["fail"], id_iss=op.get("id_iss", ""))
        else:
            op = {"op": "advance", "dt": rng.choice([10, 1800, 3601])}
            w.advance(op["dt"])
        ops.append(op)
    return dict(cfg, ops=ops)


def configs():
    out = []
    for fw in ("flask", "django", "starlette"):
        for cache in (False, True):
            for pkce in (False, True):
                for openid in (False, True):
                    out.append({"fw": fw, "cache": cache, "pkce": pkce, "openid": openid})
            # OAuth 1 providers: the request token plays the part of the state
            out.append({"fw": fw, "cache": cache, "pkce": False, "openid": False, "oauth1": True})
            # OpenID with a rotated provider key: the client re-fetches the JWKS before validating the ID token
            out.append({"fw": fw, "cache": cache, "pkce": True, "openid": True, "rotate": True})
            if fw == "flask" and not cache:
                # an application that uses a cache extension for its own purposes and gives the OAuth registry none: flows stay bound to the session
                out.append({"fw": fw, "cache": False, "pkce": True, "openid": False, "ext_cache": True})
            # providers registered through their discovery document only (server_metadata_url): fetched once, on first use of the app object
            out.append({"fw": fw, "cache": cache, "pkce": cache, "openid": True, "discovery": True})
    return out


def directed(cfg):
    """begin in session 0, then each kind of callback (twice: replay)"""
    out = []
    for kind in ("own", "other-session", "other-provider", "absent", "garbage", "replay", "replay-after-failed-exchange", "interleaved"):
        w = mk_world(cfg)
        n0, n1 = cfg["names"]
        ops = []
        def begin(sess, name, redirect="https://rp/cb"):
            o = w.begin(sess, name, redirect)
            ops.append({"op": "begin", "sess": sess, "name": name, "redirect": redirect, "state": o["state"], "data": w.peek(sess, name, o["state"])})
            return o
        def cb(sess, name, state, idn, fail=False):
            ops.append({"op": "callback", "sess": sess, "name": name, "state": state, "id_nonce": idn if cfg["openid"] else False, "kind": kind, "fail": fail})
            w.callback(sess, name, state, id_nonce=idn if cfg["openid"] else False, fail=fail)
        a = begin(0, n0)
        if kind == "own":
            cb(0, n0, a["state"], a["url_nonce"])
            if cfg["openid"]:
                b2 = begin(1, n0)
                ops.append({"op": "callback", "sess": 1, "name": n0, "state": b2["state"], "id_nonce": b2["url_nonce"], "kind": kind, "fail": False, "id_iss": "/"})
                w.callback(1, n0, b2["state"], id_nonce=b2["url_nonce"], id_iss="/")
        elif kind == "other-session": cb(1, n0, a["state"], a["url_nonce"]); cb(0, n0, a["state"], a["url_nonce"])
        elif kind == "other-provider": cb(0, n1, a["state"], a["url_nonce"]); cb(0, n0, a["state"], a["url_nonce"])
        elif kind == "absent": cb(0, n0, None, a["url_nonce"])
        elif kind == "garbage": cb(0, n0, "zzz", a["url_nonce"])
        elif kind == "replay": cb(0, n0, a["state"], a["url_nonce"]); cb(0, n0, a["state"], a["url_nonce"])
        elif kind == "replay-after-failed-exchange": cb(0, n0, a["state"], a["url_nonce"], fail=True); cb(0, n0, a["state"], a["url_nonce"])
        else:
            b = begin(1, n0, "https://rp/cb2"); c = begin(0, n1, None)
            cb(1, n0, b["state"], a["url_nonce"]); cb(0, n1, c["state"], c["url_nonce"]); cb(0, n0, a["state"], a["url_nonce"]); cb(1, n0, a["state"], a["url_nonce"])
        out.append(dict(cfg, ops=ops))
    return out


def cases(rng, tier):
    out = []
    per, ln = (3, 9) if tier == "quick" else (40, 16)
    for cfg in configs():
        for i in range(per):
            out.append(gen_history(rng, dict(cfg, names=NAME_SETS[i % len(NAME_SETS)]), ln))
        out += directed(dict(cfg, names=["p1", "p2"]))
    return out


def impl(c):
    w = mk_world(c)
    outs = []
    for op in c["ops"]:
        o = run_op(w, op)
        outs.append(o)
        if "raised" in o:
            break
    return {"outs": outs, "store": w.snapshot()}


def model_line(c):
    ops = []
    for op in c["ops"]:
        if op["op"] == "begin":
            if op.get("state") is None:
                return None
            ops.append({"op": "begin", "sess": op["sess"], "name": op["name"], "state": op["state"], "data": op["data"]})
        elif op["op"] == "callback":
            ops.append({"op": "callback", "sess": op["sess"], "name": op["name"], "state": op.get("state")})
        else:
            ops.append(op)
    return {"cfg": {"cache": c["cache"], "starlette": c["fw"] == "starlette", "oauth1": bool(c.get("oauth1")), "now": cw.NOW0, "defaults": {} if c.get("oauth1") else {c["names"][-1]: "https://rp/registered-default"}}, "ops": ops}


def model_canon(mo):
    if "store" in mo:
        st = mo["store"]
        mo = dict(mo, store={"sessions": [sorted(s) for s in st["sessions"]], "cache": sorted(st["cache"])})
    if "outs" in mo:
        mo["outs"] = [dict(o, nonce=None) if o.get("out") == "proceeds" else o for o in mo["outs"]]
    return mo


def project(c, out):
    outs = []
    for o in out["outs"]:
        if o.get("out") == "proceeds":
            # the nonce used for validation is not observable on the wire; the oracle checks it through the ID token verdict
            outs.append({"out": "proceeds", "redirect": o["sent"]["redirect"], "verifier": o["sent"]["verifier"], "nonce": None})
        elif o.get("out") in ("saved", "mismatch", "ticked"):
            outs.append({"out": o["out"]})
        else:
            outs.append(o)
    return {"outs": outs, "store": out["store"]}


def project_model(mo):
    return mo


def oracle(c, out):
    v = []
    mode = "cache" if c["cache"] else "session"
    def bad(what, **sig):
        v.append((what, dict(sig, mode=mode, fw=c["fw"])))
    live = {}       # (sess, name, state) -> begin output
    ever = {}       # (name, state) -> (sess, begin output) of every flow ever started
    for op, o in zip(c["ops"], out["outs"]):
        if "raised" in o:
            bad(f"{op['op']} raised {o['raised']}", kind="crash", exc=o["raised"].split(":")[0]); break
        if op["op"] == "begin":
            if c["fw"] == "starlette" and not c["cache"]:
                # StarletteIntegration keeps one flow per provider-name prefix in a session
                for k in [k for k in live if k[0] == op["sess"] and f"_state_{k[1]}_{k[2]}".startswith(f"_state_{op['name']}_")]:
                    live.pop(k)
            o = dict(o, asked_redirect=op.get("redirect"))
            live[(op["sess"], op["name"], o["state"])] = o
            ever[(op["name"], o["state"])] = (op["sess"], o)
            if op.get("redirect") and not c.get("oauth1") and o.get("url_redirect") != op["redirect"]:
                bad(f"authorize_redirect({op['redirect']!r}) put redirect_uri {o.get('url_redirect')!r} into the authorization URL", kind="wrong-redirect", where="authorization-url")
            if c["pkce"] and not o.get("url_challenge"):
                bad("PKCE configured but the authorization URL carries no code_challenge", kind="no-challenge")
            continue
        if op["op"] != "callback":
            continue
        key = (op["sess"], op["name"], op.get("state"))
        if o.get("out") == "proceeds":
            b = live.get(key)
            if b is None:
                skey = f"_state_{op['name']}_{op.get('state')}"
                coll = [k for k in live if f"_state_{k[1]}_{k[2]}" == skey and (k[1], k[2]) != (op["name"], op.get("state")) and (c["cache"] or k[0] == op["sess"])]
                if coll and coll[0][0] == op["sess"]:
                    why, kind = f"the state of a flow started for provider {coll[0][1]!r} (the keys f'_state_{{name}}_{{state}}' coincide)", "key-collision"
                elif (op["name"], op.get("state")) in ever and ever[(op["name"], op.get("state"))][0] != op["sess"]:
                    why, kind = "a state created in ANOTHER user session", "foreign-session"
                elif (op["name"], op.get("state")) in ever:
                    why, kind = "a state that was already consumed", "replayed"
                elif any(s == op.get("state") for (_, s) in ever):
                    why, kind = "a state created for another provider", "other-provider"
                else:
                    why, kind = "a state no authorization redirect of this provider created", "unknown-state"
                bad(f"{c['fw']}/{mode}: the callback for provider {op['name']!r} in session {op['sess']} exchanged the code with {why} (state={op.get('state')!r})", kind=kind)
            else:
                if o["requests"] != 1 or o["endpoint"] != f"https://{op['name']}.example/" + ("access" if c.get("oauth1") else "token"):
                    bad("the code was not sent exactly once to the provider's own token endpoint", kind="wrong-endpoint")
                if c.get("oauth1") and (o["sent"]["token"] != op.get("state") or o["sent"]["verifier"] != "rs" + str(op.get("state"))[2:]):
                    bad(f"the access-token request for request token {op.get('state')!r} carried token {o['sent']['token']!r} signed with secret {o['sent']['verifier']!r}, "
                        "not the request token saved for this flow", kind="wrong-request-token")
                if b.get("asked_redirect") and not c.get("oauth1") and o["sent"]["redirect"] != b["asked_redirect"]:
                    bad(f"redirect_uri sent to the token endpoint ({o['sent']['redirect']!r}) is not the one the application saved for this state ({b['asked_redirect']!r})", kind="wrong-redirect")
                if o["sent"]["redirect"] != b["url_redirect"]:
                    bad(f"redirect_uri sent to the token endpoint ({o['sent']['redirect']!r}) is not the one of the authorization request ({b['url_redirect']!r})", kind="wrong-redirect")
                if c["pkce"] and (not o["sent"]["verifier"] or cw.s256(o["sent"]["verifier"]) != b["url_challenge"]):
                    bad("code_verifier sent to the token endpoint does not match the code_challenge of the authorization request of this state", kind="wrong-verifier")
                if c["openid"] and op.get("id_nonce") is not False and not op.get("fail"):
                    want = "validated" if op["id_nonce"] == b["url_nonce"] and not op.get("id_iss") else "rejected"
                    if not o["id_token"].startswith(want):
                        if op.get("id_iss") and op["id_nonce"] == b["url_nonce"]:
                            bad(f"ID token issued by 'https://{op['name']}.example{op['id_iss']}' was {o['id_token']} by the client registered for 'https://{op['name']}.example'", kind="wrong-issuer")
                        else:
                            bad(f"ID token with nonce {op['id_nonce']!r} was {o['id_token']} although the authorization request of this state sent nonce {b['url_nonce']!r}",
                                kind="wrong-nonce")
        elif o.get("out") in ("mismatch", "oauth_error"):
            if o.get("requests"):
                bad("a request reached the provider although the callback was refused", kind="request-before-mismatch")
        live.pop(key, None)
    return v


def classify(c, out):
    kinds = sorted({op.get("kind", "-") for op in c["ops"] if op["op"] == "callback"})
    return f"{c['fw']}/{'cache' if c['cache'] else 'session'}/{'oauth1' if c.get('oauth1') else 'rotated-jwks' if c.get('rotate') else 'oauth2'}/pkce={int(c['pkce'])}/openid={int(c['openid'])}/" + ("+".join(kinds)[:60] or "none")


def nontrivial(c, out):
    return (c["fw"], c["cache"], c["pkce"], c["openid"], c.get("oauth1", False), c.get("rotate", False), [(o["op"], o.get("sess"), o.get("name"), o.get("state"), o.get("id_nonce"), o.get("fail"), o.get("id_iss")) for o in c["ops"]])


def search(breaks, rng, known, match_known):
    for c in cases(rng, "thorough"):
        o = impl(c)
        for what, sig in oracle(c, o):
            if match_known(known, sig) is None:
                return {"what": what, "sig": sig, "case": c, "impl": o}
    return None
