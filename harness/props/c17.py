"""C17 — the async client refreshes an expired token exactly once under any interleaving (schedules)."""
import asyncworld as aw

RULE = ("one case = one complete schedule of the real AsyncOAuth2Client with N concurrent request()/stream() callers on an asyncio loop whose transport and update_token "
        "callback park on futures: at every quiescent point the controller starts the next caller or releases one parked response / callback. All schedules are "
        "enumerated (N = 2..4 quick, ..5 thorough; sampled above) × grant {refresh_token, rotating refresh_token, client_credentials} × callback on/off × token-endpoint "
        "outcome sequences {success; OAuth error then success; 5xx then success; always error}. The observed event trace is replayed on the Lean transition system "
        "(every event must be an enabled continuation; final counters and per-caller results equal)")
ASSUMPTIONS = ["asyncio runs a coroutine atomically between awaits; real thread pre-emption and network timing are outside the model",
               "anyio's lock hands off FIFO and callers are started in index order; the model allows any hand-off, so it over-approximates the schedules explored here",
               "the refreshed token is live (expires_in 3600): hypothesis FreshTokenLive"]

OUTCOMES = [["success"], ["oauth_error", "success"], ["server_error", "success"], ["oauth_error"], ["oauth_error", "server_error", "success"]]


def configs(tier):
    ns = (2, 3, 4) if tier == "quick" else (2, 3, 4, 5)
    out = []
    for n in ns:
        for grant in ("refresh", "refresh_rotating", "client_credentials"):
            for has_cb in (True, False):
                for outs in OUTCOMES:
                    if n >= 4 and (grant == "refresh_rotating" or (not has_cb and outs != ["success"])):
                        continue
                    if n >= 5 and (grant != "refresh" or outs not in (["success"], ["oauth_error", "success"])):
                        continue
                    out.append({"n": n, "grant": grant, "has_cb": has_cb, "outcomes": outs, "stream": n % 2 == 1})
    # a token response without expiry information (expires_in is only RECOMMENDED), and a clock standing inside the second of expiry
    for n in (2, 3):
        out.append({"n": n, "grant": "refresh", "has_cb": True, "outcomes": ["success"], "stream": False, "resp": "no-expiry"})
        out.append({"n": n, "grant": "client_credentials", "has_cb": True, "outcomes": ["success"], "stream": n == 3, "resp": "no-expiry"})
        out.append({"n": n, "grant": "refresh", "has_cb": True, "outcomes": ["success"], "stream": n == 3, "clock": "fraction"})
        out.append({"n": n, "grant": "refresh", "has_cb": True, "outcomes": ["success"], "stream": n == 3, "leeway": 300})
        out.append({"n": n, "grant": "client_credentials", "has_cb": n == 2, "outcomes": ["success"], "stream": False, "leeway": 3600})
        out.append({"n": n, "grant": "refresh", "has_cb": True, "outcomes": ["success"], "stream": n == 3, "cb_kind": "sync-returning-awaitable"})
        out.append({"n": n, "grant": "client_credentials", "has_cb": True, "outcomes": ["success"], "stream": False, "cb_kind": "sync-returning-awaitable"})
        out.append({"n": n, "grant": "client_credentials", "has_cb": True, "outcomes": ["success"], "stream": n == 3, "cc_via_fetch": True})
        # a provider whose access tokens contain characters outside RFC 6750's b64token grammar (some do): still "the new access token"
        out.append({"n": n, "grant": "refresh", "has_cb": True, "outcomes": ["success"], "stream": n == 3, "token_suffix": "|v1!"})
    return out


def cases(rng, tier):
    out = []
    for cfg in configs(tier):
        for o in aw.explore(cfg, limit=3000 if tier == "quick" else None):
            out.append({"cfg": cfg, "decisions": [c for c, _ in o["taken"]]})
    for n in ((5, 6) if tier == "quick" else (6, 7)):
        cfg = {"n": n, "grant": "refresh", "has_cb": True, "outcomes": ["server_error", "success"], "stream": True}
        for o in aw.explore(cfg, limit=25 if tier == "quick" else 400, rng=rng):
            out.append({"cfg": cfg, "decisions": [c for c, _ in o["taken"]]})
    return out


def impl(c):
    return aw.run_schedule(c["cfg"], c["decisions"])


def version(auth):
    if auth == "Bearer old0":
        return 0
    if auth and auth.startswith("Bearer new"):
        import re
        m = re.match(r"(\d+)", auth[len("Bearer new"):])
        return int(m.group(1)) if m else 999
    return 999


def model_events(out):
    evs = []
    for e in out["events"]:
        if e["ev"] == "refresh_sent":
            evs.append({"ev": "refresh_sent", "i": e["i"]})
        elif e["ev"] == "refresh_resp":
            evs.append({"ev": "refresh_resp", "i": e["i"], "outcome": e["outcome"]})
        elif e["ev"] == "cb_end":
            evs.append({"ev": "cb_end", "i": e["i"]})
        elif e["ev"] == "protected_sent":
            evs.append({"ev": "protected_sent", "i": e["i"], "v": version(e["auth"])})
    return evs


_impl_cache = {}


def model_line(c):
    # the model replays the trace the real client produced for this schedule
    out = impl(c)
    return {"n": c["cfg"]["n"], "has_cb": c["cfg"]["has_cb"], "events": model_events(out)}


def project(c, out):
    evs = out["events"]
    n = c["cfg"]["n"]
    sent = [None] * n
    for e in evs:
        if e["ev"] == "protected_sent":
            sent[e["i"]] = version(e["auth"])
    pcs = []
    for i in range(n):
        r = out["results"][i]
        pcs.append("done" if r == 200 else ("failed" if r in ("OAuthError", "HTTPStatusError") else f"?{r}"))
    return {"stuck": None, "refresh_sent": sum(e["ev"] == "refresh_sent" for e in evs),
            "refresh_ok": sum(e["ev"] == "refresh_resp" and e["outcome"] == "success" for e in evs),
            "failures": sum(e["ev"] == "refresh_resp" and e["outcome"] != "success" for e in evs),
            "callbacks": sum(e["ev"] == "cb_end" for e in evs), "sent": sent, "pcs": pcs}


def oracle(c, out):
    v = []
    cfg = c["cfg"]
    def bad(what, **sig):
        v.append((what, dict(sig, grant=cfg["grant"])))
    evs = out["events"]
    if out["stuck"]:
        bad(f"callers {out['stuck']} never finished although every parked response and callback was released", kind="stuck")
    in_flight, succeeded = None, 0
    for k, e in enumerate(evs):
        if e["ev"] == "refresh_sent":
            if in_flight is not None:
                bad(f"a second refresh request was sent (by caller {e['i']}) while caller {in_flight}'s was still in flight", kind="concurrent-refresh")
            if succeeded:
                bad(f"another refresh request was sent (by caller {e['i']}) after the token had already been refreshed for this expiry", kind="second-refresh")
            in_flight = e["i"]
            want = "grant_type=client_credentials" if cfg["grant"] == "client_credentials" else "grant_type=refresh_token"
            if want not in e["body"]:
                bad(f"unexpected refresh request body {e['body']!r}", kind="refresh-body")
        elif e["ev"] == "refresh_resp":
            in_flight = None
            succeeded += e["outcome"] == "success"
        elif e["ev"] == "protected_sent":
            if version(e["auth"]) == 0:
                bad(f"caller {e['i']}'s protected request went out carrying the expired access token", kind="expired-token-sent")
            elif version(e["auth"]) != succeeded:
                bad(f"caller {e['i']}'s protected request carried {e['auth']!r}, not the current token", kind="stale-token-sent")
        elif e["ev"] == "cb_start":
            if e["new"] != f"new{succeeded}" + cfg.get("token_suffix", ""):
                bad(f"update_token was called with {e['new']!r}, not the refreshed token", kind="callback-token")
    ncb = sum(e["ev"] == "cb_start" for e in evs)
    if cfg["has_cb"] and ncb != succeeded:
        bad(f"update_token fired {ncb} times for {succeeded} successful refresh(es)", kind="callback-count")
    failed_resp = [e["i"] for e in evs if e["ev"] == "refresh_resp" and e["outcome"] != "success"]
    for i, r in enumerate(out["results"]):
        sent_i = any(e["ev"] == "protected_sent" and e["i"] == i for e in evs)
        if i in failed_resp:
            if r not in ("OAuthError", "HTTPStatusError"):
                bad(f"caller {i}'s refresh failed but it received {r!r} instead of the error", kind="error-not-delivered")
            if sent_i:
                bad(f"caller {i}'s refresh failed and its protected request was sent anyway", kind="sent-after-failure")
        elif not out["stuck"] and r != 200:
            bad(f"caller {i} ended with {r!r} although its refresh did not fail", kind="unexpected-result", result=str(r))
    if cfg["outcomes"] == ["success"] and sum(e["ev"] == "refresh_sent" for e in evs) != 1:
        bad(f"{sum(e['ev'] == 'refresh_sent' for e in evs)} refresh requests were made for one expiry", kind="refresh-count")
    return v


def classify(c, out):
    cfg = c["cfg"]
    return f"n={cfg['n']}/{cfg['grant']}/cb={int(cfg['has_cb'])}/" + ",".join(cfg["outcomes"])


def nontrivial(c, out):
    return (classify(c, out), [(e["ev"], e["i"]) for e in out["events"]])


def search(breaks, rng, known, match_known):
    for c in cases(rng, "thorough"):
        o = impl(c)
        for what, sig in oracle(c, o):
            if match_known(known, sig) is None:
                return {"what": what, "sig": sig, "case": c, "impl": o}
    return None
