"""C06 — authorization and device codes: client binding, single use, redirect and PKCE (histories)."""
import re

import provider_hist as H
from provider_hist import s256, V43, V_ALT

RULE = ("one case = one history of authorize / redeem / device-authorize / user-decide / poll / advance-clock requests against the real provider "
        "(3 clients incl. one public, 2 users), generated as a walk whose references are mostly the credentials the provider really handed out, plus stale, foreign, "
        "unknown ones; every step output and the final store are compared with the Lean state machine; non-trivial = distinct history")
ASSUMPTIONS = ["client authentication inside histories uses each client's registered method with right or wrong secret (C07 owns the rest)",
               "reference integrator semantics (memserver.py on the repo's sqla_oauth2 mixins): codes expire 300 s after auth_time, looked up by (code, client)"]
model_canon = H.model_canon
VERIFIER_RE = re.compile(r"[A-Za-z0-9\-._~]{43,128}")


def cases(rng, tier):
    out = []
    n, ln = (150, 14) if tier == "quick" else (3000, 30)
    for i in range(n):
        h = H.gen_history(rng, ln, "code", pkce_required=(i % 3 == 0), supported=(["a", "b", "c"] if i % 4 == 0 else None))
        out.append({"cfg": h["cfg"], "ops": h["ops"]})
    # directed short histories: boundary verifiers and the classic attacks
    for ch, method, verifier in [(V43, None, V43), (V43, "plain", V43 + "\n"), (s256(V43), "S256", V43), (s256(V43), "S256", V_ALT), ("c" * 128, None, "c" * 128),
                                 ("c" * 128, None, "c" * 129), (s256("v" * 42), "S256", "v" * 42), (V43, None, None), (None, None, V43), (s256(V43), None, V43),
                                 (None, None, None), ("a-b.c_d~" * 6, None, "a-b.c_d~" * 6), (s256("-._~" * 12), "S256", "-._~" * 12)]:          # every RFC 7636 punctuation character          # neither challenge nor verifier: refused for a public client where PKCE is required
        for cid, auth in (("c1", ["c1", "client_secret_basic"]), ("pub", ["pub", "none"])):
            for req in (False, True):
                ops = [{"op": "authorize", "client": cid, "redirect": None, "scope": "a", "challenge": ch, "method": method, "user": 1, "approve": True},
                       {"op": "redeem", "auth": auth, "code": "code1", "redirect": None, "verifier": verifier},
                       {"op": "redeem", "auth": auth, "code": "code1", "redirect": None, "verifier": verifier}]
                case = {"cfg": dict(H.World(req).cfg), "ops": ops}
                if verifier is not None and verifier.startswith(("a-b.c_d~", "-._~")):
                    case.update(expect=[True, True, False], registered="the client's default")      # a matching RFC 7636 verifier is accepted (once)
                out.append(case)
    # the token request carries a scope parameter of its own: what is issued is what the resource owner approved, nothing more
    for approved in (None, "a", "a b"):
        for asked in ("a", "a b", "c", "a b c"):
            ops = [{"op": "authorize", "client": "c1", "redirect": "https://c1/cb", "scope": approved, "challenge": None, "method": None, "user": 1, "approve": True},
                   {"op": "redeem", "auth": ["c1", "client_secret_basic"], "code": "code1", "redirect": "https://c1/cb", "verifier": None, "req_scope": asked}]
            out.append({"cfg": dict(H.World().cfg), "ops": ops})
            ops = [{"op": "device_authorize", "auth": ["c1", "client_secret_basic"], "client_id": "c1", "scope": approved},
                   {"op": "user_decide", "uc": 2, "user": 1, "approve": True},
                   {"op": "poll", "auth": ["c1", "client_secret_basic"], "dc": "dc1", "req_scope": asked}]
            out.append({"cfg": dict(H.World().cfg), "ops": ops})
    # a registered redirect URI with a percent escape: the token request must present the identical string, not an equivalent spelling
    esc, plain = "https://c1/cb3?next=%2Fhome", "https://c1/cb3?next=/home"
    for at_auth, at_token in ((esc, esc), (esc, plain), (plain, plain), (plain, esc), (esc, "https://c1/cb3?next=%2fhome")):
        out.append({"cfg": dict(H.World().cfg), "ops": [
            {"op": "authorize", "client": "c1", "redirect": at_auth, "scope": "a", "challenge": None, "method": None, "user": 1, "approve": True},
            {"op": "redeem", "auth": ["c1", "client_secret_basic"], "code": "code1", "redirect": at_token, "verifier": None}],
            "expect": [at_auth == esc, at_auth == esc and at_token == esc]})      # a code is issued for the registered spelling only; it is redeemed with the identical string only
    # a confidential client registered without an explicit token_endpoint_auth_method: its codes and device codes are redeemed with its secret only
    for auth in (["c3", "none"], ["c3", "client_secret_post"], ["c3", "client_secret_basic"]):
        out.append({"cfg": dict(H.World().cfg), "ops": [
            {"op": "authorize", "client": "c3", "redirect": None, "scope": "a", "challenge": None, "method": None, "user": 1, "approve": True},
            {"op": "redeem", "auth": auth, "code": "code1", "redirect": None, "verifier": None}], "auth_as_registered": auth[1] == "client_secret_basic"})
        out.append({"cfg": dict(H.World().cfg), "ops": [
            {"op": "device_authorize", "auth": ["c3", "client_secret_basic"], "client_id": "c3", "scope": "a"},
            {"op": "user_decide", "uc": 2, "user": 1, "approve": True},
            {"op": "poll", "auth": auth, "dc": "dc1"}], "auth_as_registered": auth[1] == "client_secret_basic"})
    # near-miss spellings of the redirect URI at the token endpoint: "the identical redirect URI that was sent at authorization"
    for base in ("https://c1/cb", "https://c1/dir/"):
        for near in (base, base + "/", base.rstrip("/"), base + "?", base + "#", base.replace("c1", "C1"), base + " ", " " + base, base.replace("https", "HTTPS"), base + "//",
                     base.replace("/c", "/%63").replace("/d", "/%64"), base + "/.", base.replace("c1", "c1:443")):
            out.append({"cfg": dict(H.World().cfg), "ops": [
                {"op": "authorize", "client": "c1", "redirect": base, "scope": "a", "challenge": None, "method": None, "user": 1, "approve": True},
                {"op": "redeem", "auth": ["c1", "client_secret_basic"], "code": "code1", "redirect": near, "verifier": None}],
                "expect": [True, near == base], "registered": base})
    # a denial expressed on the request object of the consent step (it still carries the resource owner): no code, hence no token
    for approve in (False, True):
        out.append({"cfg": dict(H.World().cfg), "ops": [
            {"op": "authorize", "client": "c1", "redirect": "https://c1/cb", "scope": "a", "challenge": None, "method": None, "user": 1, "approve": approve, "user_on_request": True},
            {"op": "redeem", "auth": ["c1", "client_secret_basic"], "code": "code1", "redirect": "https://c1/cb", "verifier": None}]})
    for variant in ("other-client", "replay", "redirect-mismatch", "redirect-dropped", "redirect-added", "expired", "denied"):
        uri = "https://c1/cb2"
        ops = [{"op": "authorize", "client": "c1", "redirect": None if variant == "redirect-added" else uri, "scope": "a b", "challenge": None, "method": None, "user": 2,
                "approve": variant != "denied"}]
        if variant == "expired":
            ops.append({"op": "advance", "dt": 301})
        red = {"op": "redeem", "auth": ["c1", "client_secret_basic"], "code": "code1", "redirect": uri, "verifier": None}
        if variant == "other-client": red["auth"] = ["c2", "client_secret_post"]
        if variant == "redirect-mismatch": red["redirect"] = "https://c1/cb"
        if variant == "redirect-dropped": red["redirect"] = None
        ops.append(red)
        ops.append(dict(red, auth=["c1", "client_secret_basic"], redirect=uri if variant != "redirect-added" else None))
        out.append({"cfg": dict(H.World().cfg), "ops": ops})
    # "the issued token belongs to exactly the user and scope that were approved" when the access token is a JWT (RFC 9068 / RFC 7523 generators):
    # the claims inside the token, per flow, also after a refresh
    for gen in ("jwt9068", "jwt7523"):
        for flow in ("code", "device", "hybrid", "password"):
            for user in (1, 2):
                for refresh in (False, True):
                    out.append({"jwt_owner": {"gen": gen, "flow": flow, "user": user, "refresh": refresh, "scope": "a b"}, "cfg": {}, "ops": []})
    # consent step and decision on ONE request object: get_consent_grant(request, end_user=U) attaches U; the decision then says "denied" (grant_user=None).
    # Nothing may be issued, and nothing redeemable may be stored — every response type, approve for comparison
    for rt in ("code", "code id_token", "code token", "code id_token token", "id_token", "id_token token", "token"):
        for approve in (False, True):
            out.append({"consent_decision": {"rt": rt, "approve": approve}, "cfg": {}, "ops": []})
    return out


def impl_consent_decision(c):
    from urllib.parse import urlparse, parse_qsl
    import memserver as ms
    from memserver import Req, Client
    j = c["consent_decision"]
    store, srv, rp = ms.build(oidc=True)
    public = j["rt"] in ("id_token", "id_token token", "token")
    store.clients["c1"] = Client("c1", "" if public else "s1", ["https://c1/cb"], "a b openid", ms.ALL_GRANT_TYPES, ms.ALL_RESPONSE_TYPES, "none" if public else "client_secret_basic")
    form = dict(response_type=j["rt"], client_id="c1", scope="openid a" if j["rt"] != "token" and j["rt"] != "code" else "a", state="s", redirect_uri="https://c1/cb", nonce="n1")
    req = srv.create_oauth2_request(Req("POST", "https://as.example/authorize", form))
    grant = srv.get_consent_grant(req, end_user=store.users[1])
    r = srv.create_authorization_response(grant.request, grant_user=store.users[1] if j["approve"] else None)
    loc = dict(r.headers).get("Location", "")
    q = dict(parse_qsl(urlparse(loc).query + "&" + urlparse(loc).fragment, keep_blank_values=True))
    out = {"status": r.status, "error": q.get("error"), "handed_out": sorted(k for k in ("code", "access_token", "id_token") if k in q),
           "stored_codes": len(store.codes), "stored_tokens": len(store.tokens)}
    if "code" in q:
        r2 = srv.create_token_response(Req("POST", "https://as.example/token", dict(grant_type="authorization_code", code=q["code"], redirect_uri="https://c1/cb"), ms.basic("c1", "s1")))
        out["redeemed"] = "access_token" in r2.body
    return out


def impl_jwt_owner(c):
    import base64, json
    from urllib.parse import urlparse, parse_qsl
    import memserver as ms
    from memserver import Req, Client
    from props import c08
    j = c["jwt_owner"]
    store, srv, rp = ms.build(oidc=True)
    c08._install_generator(srv, store, j["gen"])
    store.clients["c1"] = Client("c1", "s1", ["https://c1/cb"], "a b c openid", ms.ALL_GRANT_TYPES, ms.ALL_RESPONSE_TYPES)
    hdr = ms.basic("c1", "s1")
    user = store.users[j["user"]]
    def claims(body):
        tok = body.get("access_token", "")
        parts = tok.split(".")
        if len(parts) != 3:
            return {"not_jwt": tok[:12]}
        p = json.loads(base64.urlsafe_b64decode(parts[1] + "=" * (-len(parts[1]) % 4)))
        return {"sub": p.get("sub"), "client_id": p.get("client_id"), "scope": p.get("scope"), "response_scope": body.get("scope")}
    TOK = "https://as.example/token"
    if j["flow"] in ("code", "hybrid"):
        rt = "code" if j["flow"] == "code" else "code token"
        form = dict(response_type=rt, client_id="c1", scope=j["scope"] + (" openid" if j["flow"] == "hybrid" else ""), state="s", redirect_uri="https://c1/cb", nonce="n1")
        r = srv.create_authorization_response(Req("POST", "https://as.example/authorize", form), grant_user=user)
        loc = dict(r.headers).get("Location", "")
        q = dict(parse_qsl(urlparse(loc).query + "&" + urlparse(loc).fragment, keep_blank_values=True))
        if "code" not in q:
            return {"error": "no code: " + loc[:80]}
        r = srv.create_token_response(Req("POST", TOK, dict(grant_type="authorization_code", code=q["code"], redirect_uri="https://c1/cb"), hdr))
    elif j["flow"] == "device":
        r = srv.create_endpoint_response("device_authorization", Req("POST", "https://as.example/device", dict(client_id="c1", scope=j["scope"]), hdr))
        store.user_grants[r.body["user_code"]] = (j["user"], True)
        r = srv.create_token_response(Req("POST", TOK, dict(grant_type="urn:ietf:params:oauth:grant-type:device_code", device_code=r.body["device_code"]), hdr))
    else:
        # the password grant authenticates the user named in the request
        r = srv.create_token_response(Req("POST", TOK, dict(grant_type="password", username=str(j["user"]), password="pw", scope=j["scope"]), hdr))
    if "access_token" not in r.body:
        return {"error": str(r.body)[:100]}
    out = {"first": claims(r.body)}
    if j["refresh"]:
        if not r.body.get("refresh_token"):
            return dict(out, refreshed="no-refresh-token")
        r2 = srv.create_token_response(Req("POST", TOK, dict(grant_type="refresh_token", refresh_token=r.body["refresh_token"]), hdr))
        out["refreshed"] = claims(r2.body) if "access_token" in r2.body else {"error": str(r2.body)[:100]}
    return out


def impl(c):
    if "consent_decision" in c:
        return impl_consent_decision(c)
    if "jwt_owner" in c:
        return impl_jwt_owner(c)
    return H.replay_all(c)


def model_line(c):
    if "jwt_owner" in c or "consent_decision" in c:
        return None
    if c.get("auth_as_registered") is False:
        return None          # (the state machine takes "authenticated as" for granted; which method authenticates whom is C07's model)
    return {"cfg": c["cfg"], "ops": c["ops"]}


def project(c, out):
    return out


def oracle_core(c, out):
    v = _oracle_core(c, out)
    if c.get("expect") and len(out["outs"]) == len(c["expect"]):
        got = [o.get("code") is not None if op["op"] == "authorize" else o.get("access") is not None for op, o in zip(c["ops"], out["outs"])]
        if got != c["expect"] and len(got) == 3:
            v.append((f"PKCE with challenge {c['ops'][0]['challenge']!r} ({c['ops'][0]['method']}) and the matching RFC 7636 verifier {c['ops'][1]['verifier']!r}: "
                      f"code issued / token issued / token issued again = {got}, the statement requires {c['expect']}", {"kind": "valid-verifier-refused"}))
        elif got != c["expect"]:
            v.append((f"authorization with redirect_uri {c['ops'][0]['redirect']!r} then token request with {c['ops'][1]['redirect']!r}: code issued / token issued = {got}, "
                      f"the statement requires {c['expect']} (the registered URI is {c.get('registered', 'https://c1/cb3?next=%2Fhome')!r})", {"kind": "redirect-spelling"}))
    return v


def _oracle_core(c, out):
    """the property statement over the observed history"""
    v = []
    def bad(what, **sig):
        v.append((what, sig))
    now = c["cfg"]["now"]
    pk = c["cfg"].get("pkce_required", False)
    codes, redeemed, devices, decisions = {}, set(), {}, {}
    cl = {x[0]: x for x in H.CLIENTS}
    for op, o in zip(c["ops"], out["outs"]):
        if "raised" in o:
            bad(f"{op['op']} raised {o['raised']}", kind="crash", op=op["op"], exc=o["raised"].split(":")[0]); break
        k = op["op"]
        if k == "advance":
            now += op["dt"]
        elif k == "authorize" and o.get("code") is not None:
            if not op["approve"]:
                bad("authorization code issued although the resource owner denied", kind="code-without-approval")
            codes[o["code"]] = dict(op, time=now)
        elif k == "user_decide":
            decisions[op["uc"]] = (op["user"], op["approve"])
        elif k == "device_authorize" and o.get("device_code") is not None:
            devices[o["device_code"]] = {"client": op["client_id"], "uc": o["user_code"], "expires": now + 1800, "scope": op["scope"]}
        elif k == "redeem" and o.get("access") is not None:
            m = re.fullmatch(r"code(\d+)", op["code"] or "")
            rec = codes.get(int(m.group(1))) if m else None
            auth = op.get("auth")
            why = None
            if rec is None: why = "a code this server never issued"
            elif not auth: why = "an unauthenticated client"
            elif rec["client"] != auth[0]: why = "a code issued to another client"
            elif int(m.group(1)) in redeemed: why = "a code that was already redeemed"
            elif rec["redirect"] and op.get("redirect") != rec["redirect"]: why = "a redirect_uri different from the one sent at authorization"
            elif now > rec["time"] + 300: why = "an expired code"
            else:
                ch, ver = rec["challenge"], op.get("verifier")
                public = cl[auth[0]][2] == "none"
                if ch or (public and pk):
                    method = rec["method"] or "plain"
                    if not ver or not VERIFIER_RE.fullmatch(ver): why = "a missing or malformed code_verifier"
                    elif not ch: why = "a verifier although no challenge was recorded (nothing to compare with)"
                    elif (ver if method == "plain" else s256(ver)) != ch: why = "a code_verifier that does not match the challenge"
            if why:
                bad(f"access token issued for {why}", kind="token-for-bad-code", why=why.split(" (")[0])
            else:
                redeemed.add(int(m.group(1)))
                want = set((rec["scope"] or "").split()) & set(cl[auth[0]][3].split())
                if not set((o["scope"] or "").split()) <= want:
                    bad("token scope exceeds the approved scope", kind="token-scope")
                tok = [t for t in out["store"]["tokens"] if t[0] == o["access"]]
                if tok and tok[0][3] != rec["user"]:
                    bad("token belongs to another user than the one who approved", kind="token-user")
        elif k == "poll":
            m = re.fullmatch(r"dc(\d+)", op.get("dc") or "")
            d = devices.get(int(m.group(1))) if m else None
            auth = op.get("auth")
            if o.get("access") is not None:
                why = None
                if d is None: why = "an unknown device code"
                elif not auth or auth[0] != d["client"]: why = "a device code issued to another client"
                elif now > d["expires"]: why = "an expired device code"
                elif decisions.get(d["uc"], (None, None))[1] is not True: why = "a device code no resource owner approved"
                if why:
                    bad(f"access token issued for {why}", kind="device-token", why=why)
                else:
                    tok = [t for t in out["store"]["tokens"] if t[0] == o["access"]]
                    if tok and tok[0][3] != decisions[d["uc"]][0]:
                        bad("device token belongs to another user than the approver", kind="token-user")
                    want = set((d["scope"] or "").split()) & set(cl[auth[0]][3].split())
                    if not set((o["scope"] or "").split()) <= want:
                        bad(f"device token scope {o['scope']!r} exceeds the scope the resource owner approved ({d['scope']!r})", kind="token-scope")
            elif d is not None and auth and auth[0] == d["client"]:
                dec = decisions.get(d["uc"])
                want = ["expired_token"] if now > d["expires"] else ["access_denied"] if dec and dec[1] is False else ["authorization_pending", "slow_down"] if dec is None else None
                if want and o.get("error") not in want:
                    bad(f"poll of a {want[0].replace('_', ' ')} device code answered {o.get('error')}", kind="device-status", want=want[0])
    return v


_oracle_hist = H.oracle_all(oracle_core)


def oracle(c, out):
    if "auth_as_registered" in c:
        base = out if "outs" in out else out
        last = out["outs"][-1]
        got = last.get("access") is not None
        if got != c["auth_as_registered"]:
            return [(f"client c3 (confidential, registered without token_endpoint_auth_method) presenting itself through {c['ops'][-1]['auth'][1]} at the "
                     f"{c['ops'][-1]['op']} step: token issued = {got} ({last.get('error')}); its code / device code is redeemable with its secret through HTTP Basic only",
                     {"kind": "client-binding", "how": "default-auth-method"})]
        return []
    if "consent_decision" in c:
        j = c["consent_decision"]
        if not j["approve"] and (out["handed_out"] or out["stored_codes"] or out["stored_tokens"] or out.get("redeemed")):
            return [(f"response_type {j['rt']!r}: the resource owner was attached at the consent step and the decision was a denial, yet {out['handed_out']} were handed out "
                     f"({out['stored_codes']} code(s), {out['stored_tokens']} token(s) stored; code redeemable: {out.get('redeemed')})", {"kind": "issued-without-approval", "rt": j["rt"]})]
        if j["approve"] and (out["error"] or not out["handed_out"]):
            return [(f"response_type {j['rt']!r}: approved request answered {out}", {"kind": "approved-refused", "rt": j["rt"]})]
        return []
    if "jwt_owner" not in c:
        return _oracle_hist(c, out)
    j, v = c["jwt_owner"], []
    if "error" in out:
        return [(f"JWT access tokens ({j['gen']}), {j['flow']} flow approved by user {j['user']}: no token — {out['error']}", {"kind": "jwt-owner", "flow": j["flow"], "what": "flow-failed"})]
    for step in ("first", "refreshed"):
        cl = out.get(step)
        if cl is None or cl == "no-refresh-token":
            continue
        if "error" in cl or "not_jwt" in cl:
            v.append((f"JWT access tokens ({j['gen']}), {j['flow']} flow, {step} token: {cl}", {"kind": "jwt-owner", "flow": j["flow"], "what": "flow-failed"})); continue
        if str(cl["sub"]) != str(j["user"]):
            v.append((f"JWT access token ({j['gen']}) issued by the {j['flow']} flow{' and refreshed' if step == 'refreshed' else ''}: sub = {cl['sub']!r}, the resource owner who approved is user {j['user']}",
                      {"kind": "jwt-owner", "flow": j["flow"], "what": "sub"}))
        if cl["client_id"] not in (None, "c1") or set((cl["scope"] or "").split()) - set(j["scope"].split()) - {"openid"}:
            v.append((f"JWT access token ({j['gen']}) issued by the {j['flow']} flow: client_id {cl['client_id']!r} / scope {cl['scope']!r}, approved were client c1 / scope {j['scope']!r}",
                      {"kind": "jwt-owner", "flow": j["flow"], "what": "client-or-scope"}))
    return v


def classify(c, out):
    if "consent_decision" in c:
        return "consent_decision/" + ("approve" if c["consent_decision"]["approve"] else "deny")
    if "jwt_owner" in c:
        return "jwt_owner/" + c["jwt_owner"]["gen"] + "/" + c["jwt_owner"]["flow"]
    return "history/" + str(len(c["ops"]))


def nontrivial(c, out):
    return c.get("jwt_owner") or c.get("consent_decision") or c["ops"]


def search(breaks, rng, known, match_known):
    for c in cases(rng, "thorough"):
        o = impl(c)
        for what, sig in oracle(c, o):
            if match_known(known, sig) is None:
                return {"what": what, "sig": sig, "case": c, "impl": o}
    return None
