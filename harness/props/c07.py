"""C07 — client authentication at token, revocation, introspection, device endpoints."""
import base64
import json
import time as _t

import joseref as R
import memserver as ms
from memserver import Req, Client, Token, CLOCK
from authlib.oauth2.rfc6749 import OAuth2Request
from authlib.oauth2.rfc6749.errors import InvalidClientError, OAuth2Error
from authlib.jose import jwt

RULE = ("auth cases: registered method × presented credentials (Basic header shapes, form secret, bare client_id, several at once) × endpoint method lists, "
        "run through the real ClientAuthentication and compared with the Lean model; endpoint cases: the same through the token / revocation / introspection / "
        "device-authorization endpoints with a before/after snapshot of the store; assertion cases: client_assertion JWTs with each claim mutated and replayed; "
        "non-trivial = distinct case presenting at least one credential")
ASSUMPTIONS = ["reference integrator: check_client_secret = equality, check_endpoint_auth_method(m, ep) = (ep == 'token' → registered method == m)",
               "the JWT assertion method (RFC 7523): signature primitives are abstract in the model (Model/ClientAssertion takes the JWS verdict as input); its jti store is the integrator's"]

CLIENTS = [("basic", "sb", "client_secret_basic"), ("post", "sp", "client_secret_post"), ("pub", "", "none"), ("both", "s:x y%", "client_secret_basic"),
           ("jwtc", "jwt-shared-secret-jwt-shared-secret", "client_assertion_jwt"), ("pkjwt", "unused", "client_assertion_jwt")]
METHOD_LISTS = [["client_secret_basic"], ["client_secret_basic", "client_secret_post"], ["client_secret_basic", "client_secret_post", "none"], ["none"],
                ["client_secret_post"], ["client_secret_post", "client_secret_basic", "none"], []]
ENDPOINTS = ["token", "revocation", "introspection", "device_authorization"]


def b64(b):
    return base64.b64encode(b).decode()


def basic_headers(rng):
    creds = [b"basic:sb", b"basic:wrong", b"basic:", b"basic", b":sb", b"post:sp", b"pub:", b"pub:x", b"unknown:sb", b"both:s:x y%", b"both:s%3Ax%20y%25", b"b%61sic:sb", b"both%3As:x y%25", b"basic%3Asb", b"basic%3Asb:", b"basic%3A:sb",
             b"basic:sb:extra", b"basic%ff:sb", b"basic:s%c3%28", b"\xff\xfe:x", b"basic:s\xc3\xa9", b""]
    shapes = ["Basic {b}", "basic {b}", "BASIC {b}", "Basic  {b}", "Basic {b} ", "Basic {b}=", "Basic", "Basic ", "Bearer {b}", "Basic\t{b}", "Basic !{b}", " Basic {b}"]
    out = [None]
    for c in creds:
        for s in shapes[:6] if c in (b"basic:sb", b"both:s:x y%") else shapes[:1]:
            out.append(s.replace("{b}", b64(c)))
    out += [s.replace("{b}", b64(b"basic:sb")) for s in shapes[6:]]
    return out


def cases(rng, tier):
    out = []
    hdrs = basic_headers(rng)
    forms = [{}, {"client_id": "post", "client_secret": "sp"}, {"client_id": "post", "client_secret": "wrong"}, {"client_id": "post"}, {"client_id": "pub"},
             {"client_id": "pub", "client_secret": "x"}, {"client_id": "pub", "client_secret": ""}, {"client_id": "unknown", "client_secret": "s"}, {"client_id": "unknown"},
             {"client_id": "basic", "client_secret": "sb"}, {"client_id": "", "client_secret": "sb"}, {"client_secret": "sp"}, {"client_id": "basic"}]
    n = 2500 if tier == "quick" else 60000
    allc = []
    for h in hdrs:
        for f in forms:
            for ml in METHOD_LISTS:
                for ep in ("token", "revocation"):
                    for place in ("form", "query"):
                        allc.append({"op": "auth", "header": h, "form": f, "methods": ml, "endpoint": ep, "place": place})
    out += rng.sample(allc, min(n, len(allc)))
    # secrets that merely resemble the registered one (compatibility-equivalent characters, letter case, white space) are wrong secrets
    for near in ("\uff53\uff50", "SP", "sp ", " sp", "sp\u200b", "s\u0070\u0301"[:2] + "\u0301"):
        out.append({"op": "auth", "header": None, "form": {"client_id": "post", "client_secret": near}, "methods": METHOD_LISTS[1], "endpoint": "token", "place": "form"})
    for near in ("\uff53\uff42", "SB", "sb ", "sb\u200b"):
        out.append({"op": "auth", "header": "Basic " + b64(("basic:" + near).encode()), "form": {}, "methods": METHOD_LISTS[1], "endpoint": "token", "place": "form"})
    # endpoint level: every built-in endpoint with its own permitted list
    for ep in ENDPOINTS + ["token:authorization_code", "token:refresh_token", "token:client_credentials", "token:password", "token:device_code"]:
        for h in rng.sample(hdrs, 14) + [None, "Basic " + b64(b"basic:sb"), "Basic " + b64(b"basic:no")]:
            for f in rng.sample(forms, 5) + [{}]:
                out.append({"op": "endpoint", "endpoint": ep, "header": h, "form": f})
                if ep in ("revocation", "introspection"):
                    # … or carries an unsupported token_type_hint
                    out.append({"op": "endpoint", "endpoint": ep, "header": h, "form": f, "bad_hint": True})
                if ep in ("device_authorization", "token:client_credentials", "token:password"):
                    # the request also asks for a scope the server does not support: an unauthenticated request is still answered invalid_client
                    out.append({"op": "endpoint", "endpoint": ep, "header": h, "form": f, "bad_scope": True})
    # the built-in grants with the permitted-method lists they SHIP with (no override in the integrator), in a process that has imported the whole library
    for ep in SHIPPED:
        for h in [None, "Basic " + b64(b"basic:sb"), "Basic " + b64(b"basic:no"), "Basic " + b64(b"post:sp"), "Basic " + b64(b"pub:")]:
            for f in forms:
                out.append({"op": "endpoint", "endpoint": ep, "header": h, "form": f})
    # histories on ONE server: registry changes between requests (secret rotation, method change, deletion)
    for how in ("basic", "post", "none", "jwt"):
        out.append({"op": "history", "how": how})
    # histories of client assertions on ONE server (jti store): replay, other jti, other client, clock
    for i in range(40 if tier == "quick" else 600):
        out.append(gen_assert_history(rng))
    # assertions
    for kind in ("client_secret_jwt", "private_key_jwt"):
        for mut in ["none", "iss", "sub", "aud", "aud-list", "aud-superstring", "exp-past", "exp-missing", "jti-missing", "iss-missing", "sub-missing", "aud-missing", "bad-sig", "alg-none",
                    "unknown-client", "other-clients-key", "type-wrong", "type-missing", "replay", "nbf-future", "iat-future", "exp-within-leeway", "not-registered-method",
                    # the assertion names a kid the client has not registered: the integrator's key resolver answers None; the forger ships its own key in a jwk header
                    "unknown-kid-resolver-none", "unknown-kid-own-jwk",
                    # a valid assertion at a grant whose permitted-method list does not contain the JWT method (the method is registered on the server for another grant)
                    "method-not-permitted-by-grant",
                    # an audience that is present but empty / of another JSON type: the assertion is not addressed to the token endpoint
                    "aud-empty-list", "aud-zero", "aud-false", "aud-emptyobj", "aud-empty-string"]:
            out.append({"op": "assertion", "kind": kind, "mut": mut})
    return out


AH_SECRETS = {"jwtc": "jwt-shared-secret-jwt-shared-secret", "basic": "sb-padded-to-a-usable-hmac-key-length", "jwtc2": "second-jwt-client-secret-second-jwt-client"}


def gen_assert_history(rng):
    """requests = client assertions described by their claims and signing key; mostly valid, with replays and single defects"""
    reqs, jtis = [], []
    t = 0
    for _ in range(rng.randrange(3, 9)):
        sub = rng.choice(["jwtc"] * 5 + ["jwtc2"] * 3 + ["basic", "ghost"])
        r = {"sub": sub, "iss": sub, "aud": ms.TOKEN_URL, "exp": 300, "jti": f"j{len(jtis)}", "key": sub, "type": "ok", "dt": rng.choice([0, 0, 1, 30, 200, 400]),
             "kid": rng.choice([None, "K", "K", sub])}
        if jtis and rng.random() < 0.35:
            r["jti"] = rng.choice(jtis)
        flaw = rng.choice([None] * 5 + ["iss", "aud", "aud-list", "exp-past", "exp-leeway", "no-jti", "no-exp", "no-sub", "key", "type", "no-type", "alg-none", "jti-other-sub", "nbf-future", "aud-superstring", "aud-prefix", "aud-superstring", "key-of-other-client", "key-of-other-client"])
        if flaw == "iss": r["iss"] = "someone-else"
        elif flaw == "aud": r["aud"] = "https://other/token"
        elif flaw == "aud-list": r["aud"] = ["https://other/token", ms.TOKEN_URL]
        elif flaw == "aud-superstring": r["aud"] = rng.choice([ms.TOKEN_URL + "/", "https://evil.example/cb?next=" + ms.TOKEN_URL, ms.TOKEN_URL + "x"])
        elif flaw == "aud-prefix": r["aud"] = ms.TOKEN_URL[:-1]
        elif flaw == "exp-past": r["exp"] = -1000
        elif flaw == "exp-leeway": r["exp"] = -30
        elif flaw == "no-jti": r["jti"] = None
        elif flaw == "no-exp": r["exp"] = None
        elif flaw == "no-sub": r["sub"] = None
        elif flaw == "key": r["key"] = "other"
        elif flaw == "key-of-other-client": r["key"] = "jwtc2" if sub == "jwtc" else "jwtc"; r["kid"] = "K"
        elif flaw == "type": r["type"] = "wrong"
        elif flaw == "no-type": r["type"] = None
        elif flaw == "alg-none": r["key"] = None
        elif flaw == "jti-other-sub" and jtis: r["sub"] = r["iss"] = r["key"] = "basic"; r["jti"] = rng.choice(jtis)
        elif flaw == "nbf-future": r["nbf"] = 1000
        jtis.append(r["jti"] or "x")
        reqs.append(r)
    return {"op": "assert_history", "reqs": reqs}


def ah_token(r, now):
    claims = {}
    for k in ("iss", "sub", "aud", "jti"):
        if r.get(k) is not None:
            claims[k] = r[k]
    if r.get("exp") is not None:
        claims["exp"] = now + r["exp"]
    if r.get("nbf") is not None:
        claims["nbf"] = now + r["nbf"]
    claims["iat"] = now
    if r["key"] is None:
        h = base64.urlsafe_b64encode(json.dumps({"alg": "none"}).encode()).rstrip(b"=").decode()
        p = base64.urlsafe_b64encode(json.dumps(claims).encode()).rstrip(b"=").decode()
        return h + "." + p + ".", claims
    secret = AH_SECRETS.get(r["key"], "another-secret-another-secret-another")
    tok = jwt.encode(dict({"alg": "HS256"}, **({"kid": r["kid"]} if r.get("kid") else {})), claims, secret.encode())
    return (tok.decode() if isinstance(tok, bytes) else tok), claims


def impl_assert_history(c):
    ms.install_clock(); CLOCK.now = 1_000_000
    store, srv = make_server()
    store.clients["basic"] = Client("basic", AH_SECRETS["basic"], ["https://c/cb"], "a b", ms.ALL_GRANT_TYPES, ms.ALL_RESPONSE_TYPES, "client_secret_basic")
    store.clients["jwtc2"] = Client("jwtc2", AH_SECRETS["jwtc2"], ["https://c/cb"], "a b", ms.ALL_GRANT_TYPES, ms.ALL_RESPONSE_TYPES, "client_assertion_jwt")
    ms.ClientCredentialsGrant.TOKEN_ENDPOINT_AUTH_METHODS = ["client_secret_basic", "client_assertion_jwt"]
    steps = []
    try:
        for r in c["reqs"]:
            CLOCK.now += r["dt"]
            tok, _ = ah_token(r, CLOCK())
            form = {"grant_type": "client_credentials", "client_assertion": tok}
            if r["type"] == "ok": form["client_assertion_type"] = "urn:ietf:params:oauth:client-assertion-type:jwt-bearer"
            elif r["type"] == "wrong": form["client_assertion_type"] = "urn:bogus"
            n = len(store.tokens)
            try:
                resp = srv.create_token_response(Req("POST", ms.TOKEN_URL, form, {}))
                body = resp.body if isinstance(resp.body, dict) else {}
                if resp.status == 200 and len(store.tokens) == n + 1:
                    steps.append("authenticated:" + store.tokens[-1].client_id)
                else:
                    steps.append(body.get("error") or f"status{resp.status}")
            except Exception as e:
                steps.append("raised:" + type(e).__name__)
        return {"steps": steps, "used": sorted(store.jtis)}
    finally:
        ms.ClientCredentialsGrant.TOKEN_ENDPOINT_AUTH_METHODS = ["client_secret_basic", "client_secret_post"]


def assert_history_line(c):
    from props.c04 import enc
    import hashlib, hmac as _hmac
    now = 1_000_000
    reqs = []
    for r in c["reqs"]:
        now += r["dt"]
        tok, claims = ah_token(r, now)
        sub = claims.get("sub")
        sig_ok = False
        if r["key"] is not None and sub in AH_SECRETS:
            h, p, sg = tok.split(".")
            want = _hmac.new(AH_SECRETS[sub].encode(), (h + "." + p).encode(), hashlib.sha256).digest()
            sig_ok = _hmac.compare_digest(want, base64.urlsafe_b64decode(sg + "=" * (-len(sg) % 4)))
        reqs.append({"type_ok": r["type"] == "ok", "claims": [[k, enc(v)] for k, v in claims.items()], "sig_ok": sig_ok, "now": 4 * now})
    return {"token_url": ms.TOKEN_URL, "jwt_clients": [{"id": "jwtc", "jwt": True}, {"id": "jwtc2", "jwt": True}, {"id": "pkjwt", "jwt": True}, {"id": "basic", "jwt": False}, {"id": "post", "jwt": False},
                                                    {"id": "pub", "jwt": False}, {"id": "both", "jwt": False}], "reqs": reqs}


# the documented defaults (docs/flask/2/grants.rst, docs/django/2/grants.rst; Props.C07.shipped_method_lists proves the regenerated table equals them)
SHIPPED = {"shipped:client_credentials": ["client_secret_basic"], "shipped:password": ["client_secret_basic"], "shipped:refresh_token": ["client_secret_basic"],
           "shipped:authorization_code": ["client_secret_basic", "client_secret_post"], "shipped:device_code": ["client_secret_basic", "client_secret_post", "none"]}


def unwiden(srv):
    """give every registered token grant back the TOKEN_ENDPOINT_AUTH_METHODS of the library class it derives from, as that class has it NOW"""
    import authlib.oauth2.rfc8628, authlib.oauth2.rfc7523, authlib.oauth2.rfc7636, authlib.oidc.core.grants, authlib.oauth2.rfc9068, authlib.oauth2.rfc7591, authlib.oauth2.rfc7592  # noqa: F401
    for i, (cls, ext) in enumerate(srv._token_grants):
        lib = next(b for b in cls.__mro__ if b.__module__.startswith("authlib."))
        srv._token_grants[i] = (type("Shipped" + cls.__name__, (cls,), {"TOKEN_ENDPOINT_AUTH_METHODS": lib.TOKEN_ENDPOINT_AUTH_METHODS}), ext)


def make_server(framework=None, scopes_supported=None, shipped=False):
    store, srv, rp = ms.build(oidc=False, framework=framework, scopes_supported=scopes_supported)
    if shipped:
        unwiden(srv)
    for cid, sec, method in CLIENTS:
        store.clients[cid] = Client(cid, sec, ["https://c/cb"], "a b", ms.ALL_GRANT_TYPES, ms.ALL_RESPONSE_TYPES, method,
                                    extra={"public_key": R.pem_public(R.keys()["rsa1"])} if cid == "pkjwt" else None)
    ms.enable_jwt_client_auth(store, srv)
    store.tokens.append(Token(_store=store, access_token="AT", refresh_token="RT", client_id="basic", user_id=1, scope="a", expires_in=3600, issued_at=CLOCK(), token_type="Bearer"))
    return store, srv


def mk_request(c, extra_form=None, uri="https://as.example/ep"):
    headers = {} if c["header"] is None else {"Authorization": c["header"]}
    form = dict(extra_form or {})
    q = ""
    if c.get("place") == "query":
        from urllib.parse import urlencode
        q = "?" + urlencode(c["form"]) if c["form"] else ""
    else:
        form.update(c["form"])
    return OAuth2Request("POST", uri + q, form, headers)


def impl(c):
    ms.install_clock()
    store, srv = make_server(scopes_supported=["a", "b"] if c.get("bad_scope") else None, shipped=str(c.get("endpoint", "")).startswith("shipped:"))
    if c["op"] == "auth":
        req = mk_request(c)
        try:
            cl = srv.authenticate_client(req, c["methods"], c["endpoint"])
            return {"client": cl.get_client_id().encode("latin1", "replace").hex(), "method": req.auth_method}
        except InvalidClientError as e:
            return {"invalid_client": e.status_code, "www": "WWW-Authenticate" in dict(e.get_headers())}
        except Exception as e:
            return {"raised": type(e).__name__}
    if c["op"] == "endpoint":
        out = impl_endpoint(c, store, srv)
        for fw in ("flask", "django"):
            st2, srv2 = make_server(fw, ["a", "b"] if c.get("bad_scope") else None, shipped=c["endpoint"].startswith("shipped:"))
            o = impl_endpoint(c, st2, srv2)
            if o != out and "transport_refused" not in o:
                out["differs:" + fw] = o
        return out
    if c["op"] == "history":
        return impl_history(c, store, srv)
    if c["op"] == "assert_history":
        return impl_assert_history(c)
    return impl_assertion(c, store, srv)


EP_FORM = {"revocation": {"token": "AT"}, "introspection": {"token": "AT"}, "device_authorization": {"scope": "a"},
           "token:authorization_code": {"grant_type": "authorization_code", "code": "nocode"}, "token:refresh_token": {"grant_type": "refresh_token", "refresh_token": "RT"},
           "token:client_credentials": {"grant_type": "client_credentials"}, "token:password": {"grant_type": "password", "username": "1", "password": "pw"},
           "token:device_code": {"grant_type": "urn:ietf:params:oauth:grant-type:device_code", "device_code": "nodc"}, "token": {"grant_type": "client_credentials"}}


def impl_endpoint(c, store, srv):
    ep = c["endpoint"]
    before = json.dumps(store.snapshot(), sort_keys=True)
    headers = {} if c["header"] is None else {"Authorization": c["header"]}
    form = dict(EP_FORM[ep.replace("shipped:", "token:")]); form.update(c["form"])
    if c.get("bad_scope"):
        form["scope"] = "zzz"
    if c.get("bad_hint"):
        form["token_type_hint"] = "bogus_token_type"
    req = Req("POST", "https://as.example/ep", form, headers)
    try:
        if ep.startswith("token") or ep.startswith("shipped:"):
            r = ms.fw_call(srv, req, "create_token_response")
        else:
            r = ms.fw_call(srv, req, "create_endpoint_response", ep)
    except Exception as e:
        import traceback
        tb = "".join(traceback.format_tb(e.__traceback__)[-2:])
        if getattr(srv, "framework", None) and ("/werkzeug/" in tb or "/django/" in tb) and "/authlib/" not in tb:
            return {"transport_refused": True}        # the test transport of the framework cannot carry this header: not a request the server ever sees
        return {"raised": type(e).__name__ + ": " + str(e)[:80]}
    after = json.dumps(store.snapshot(), sort_keys=True)
    body = r.body if isinstance(r.body, dict) else {}
    return {"status": r.status, "error": body.get("error"), "www": "WWW-Authenticate" in r.headers, "changed": before != after,
            "issued": "access_token" in body or "device_code" in body}


def impl_history(c, store, srv):
    how = c["how"]
    cid = {"basic": "basic", "post": "post", "none": "pub", "jwt": "jwtc"}[how]
    n = [0]
    def attempt(secret, client_id=None):
        client_id = client_id or cid
        if how == "jwt":
            # client_secret_jwt on the ONE long-lived authentication object of the server: a fresh assertion (new jti) signed with `secret`
            n[0] += 1
            a = jwt.encode({"alg": "HS256"}, {"iss": client_id, "sub": client_id, "aud": ms.TOKEN_URL, "exp": CLOCK() + 300, "iat": CLOCK(), "jti": f"h{n[0]}"}, secret.encode())
            saved = ms.ClientCredentialsGrant.TOKEN_ENDPOINT_AUTH_METHODS
            ms.ClientCredentialsGrant.TOKEN_ENDPOINT_AUTH_METHODS = ["client_secret_basic", "client_assertion_jwt"]
            try:
                r = srv.create_token_response(Req("POST", ms.TOKEN_URL, {"grant_type": "client_credentials", "client_assertion": a.decode() if isinstance(a, bytes) else a,
                                                                          "client_assertion_type": "urn:ietf:params:oauth:client-assertion-type:jwt-bearer"}, {}))
            finally:
                ms.ClientCredentialsGrant.TOKEN_ENDPOINT_AUTH_METHODS = saved
            return (r.body if isinstance(r.body, dict) else {}).get("error")
        if how == "basic":
            req = Req("POST", ms.TOKEN_URL, {"grant_type": "refresh_token", "refresh_token": "nope"}, {"Authorization": "Basic " + b64(f"{client_id}:{secret}".encode())})
        elif how == "post":
            req = Req("POST", ms.TOKEN_URL, {"grant_type": "refresh_token", "refresh_token": "nope", "client_id": client_id, "client_secret": secret}, {})
        else:
            req = Req("POST", ms.TOKEN_URL, {"grant_type": "refresh_token", "refresh_token": "nope", "client_id": client_id}, {})
        r = srv.create_token_response(req)
        body = r.body if isinstance(r.body, dict) else {}
        # invalid_grant / invalid_request = the client WAS authenticated (the refresh token is unknown); invalid_client = it was not
        return body.get("error")
    old = store.clients[cid].client_secret
    steps = [attempt(old)]
    if how != "none":
        rot = "rotated-secret" if how != "jwt" else "rotated-secret-rotated-secret-rotated"
        store.clients[cid] = Client(cid, rot, ["https://c/cb"], "a b", ms.ALL_GRANT_TYPES, ms.ALL_RESPONSE_TYPES, store.clients[cid].token_endpoint_auth_method)
        steps += [attempt(old), attempt(rot)]
    store.clients[cid] = Client(cid, store.clients[cid].client_secret, ["https://c/cb"], "a b", ms.ALL_GRANT_TYPES, ms.ALL_RESPONSE_TYPES, "client_secret_post" if how != "post" else "client_secret_basic")
    steps.append(attempt(store.clients[cid].client_secret))      # method no longer registered for the client
    del store.clients[cid]
    steps.append(attempt(("rotated-secret" if how != "jwt" else "rotated-secret-rotated-secret-rotated") if how != "none" else ""))   # client deleted
    return {"steps": steps}


def impl_assertion(c, store, srv):
    kind, mut = c["kind"], c["mut"]
    cid = "jwtc" if kind == "client_secret_jwt" else "pkjwt"
    now = CLOCK()
    header = {"alg": "HS256" if kind == "client_secret_jwt" else "RS256"}
    claims = {"iss": cid, "sub": cid, "aud": ms.TOKEN_URL, "exp": now + 300, "iat": now, "jti": "j-" + mut}
    key = store.clients[cid].client_secret.encode() if kind == "client_secret_jwt" else R.pem_private(R.keys()["rsa1"])
    atype = "urn:ietf:params:oauth:client-assertion-type:jwt-bearer"
    if mut == "iss": claims["iss"] = "basic"
    elif mut == "sub": claims["sub"] = "basic"
    elif mut == "aud": claims["aud"] = "https://other/token"
    elif mut == "aud-list": claims["aud"] = ["https://other/token", ms.TOKEN_URL]
    elif mut == "aud-superstring": claims["aud"] = "https://evil.example/cb?next=" + ms.TOKEN_URL
    elif mut in ("aud-empty-list", "aud-zero", "aud-false", "aud-emptyobj", "aud-empty-string"):
        claims["aud"] = {"aud-empty-list": [], "aud-zero": 0, "aud-false": False, "aud-emptyobj": {}, "aud-empty-string": ""}[mut]
    elif mut == "exp-past": claims["exp"] = now - 1000
    elif mut == "exp-within-leeway": claims["exp"] = now - 30
    elif mut == "exp-missing": claims.pop("exp")
    elif mut == "jti-missing": claims.pop("jti")
    elif mut == "iss-missing": claims.pop("iss")
    elif mut == "sub-missing": claims.pop("sub")
    elif mut == "aud-missing": claims.pop("aud")
    elif mut == "nbf-future": claims["nbf"] = now + 1000
    elif mut == "iat-future": claims["iat"] = now + 1000
    elif mut == "unknown-client": claims["iss"] = claims["sub"] = "ghost"
    elif mut == "other-clients-key": key = b"some-other-secret-some-other-secret" if kind == "client_secret_jwt" else R.pem_private(R.keys()["rsa2"])
    elif mut == "type-wrong": atype = "urn:bogus"
    elif mut == "type-missing": atype = None
    elif mut == "not-registered-method":
        old = store.clients[cid]
        store.clients[cid] = Client(cid, old.client_secret, ["https://c/cb"], "a b", ms.ALL_GRANT_TYPES, ms.ALL_RESPONSE_TYPES, "client_secret_basic", extra=old.extra)
    if mut in ("unknown-kid-resolver-none", "unknown-kid-own-jwk"):
        from authlib.jose import OctKey, JsonWebKey
        header["kid"] = "no-such-kid"
        forged = OctKey.import_key(b"forger-key-forger-key-forger-key!") if kind == "client_secret_jwt" else JsonWebKey.import_key(R.pem_private(R.keys()["rsa2"]))
        key = forged
        if mut == "unknown-kid-own-jwk":
            header["jwk"] = dict(forged.as_dict(is_private=(kind == "client_secret_jwt")))

        class NoKey(ms.JwtClientAuth):
            def resolve_client_public_key(self, client, headers):
                return None if headers.get("kid") == "no-such-kid" else super().resolve_client_public_key(client, headers)
        srv.register_client_auth_method(NoKey.CLIENT_AUTH_METHOD, NoKey(store))
    tok = jwt.encode(header, claims, key)
    tok = tok.decode() if isinstance(tok, bytes) else tok
    if mut == "bad-sig":
        h, p, s = tok.split("."); tok = ".".join([h, p, ("A" if s[0] != "A" else "B") + s[1:]])
    if mut == "alg-none":
        h = base64.urlsafe_b64encode(json.dumps({"alg": "none"}).encode()).rstrip(b"=").decode()
        tok = h + "." + tok.split(".")[1] + "."
    form = {"grant_type": "client_credentials", "client_assertion": tok}
    if atype:
        form["client_assertion_type"] = atype
    srv_methods = ["client_secret_basic", "client_assertion_jwt"] if mut != "method-not-permitted-by-grant" else ["client_secret_basic"]
    ms.ClientCredentialsGrant.TOKEN_ENDPOINT_AUTH_METHODS = srv_methods
    try:
        outs = []
        for i in range(2 if mut == "replay" else 1):
            before = json.dumps(store.snapshot(), sort_keys=True)
            try:
                r = srv.create_token_response(Req("POST", ms.TOKEN_URL, dict(form), {}))
                body = r.body if isinstance(r.body, dict) else {}
                outs.append({"status": r.status, "error": body.get("error"), "issued": "access_token" in body,
                             "changed": json.dumps(store.snapshot(), sort_keys=True) != before})
            except Exception as e:
                outs.append({"raised": type(e).__name__ + ": " + str(e)[:60]})
        return {"steps": outs}
    finally:
        ms.ClientCredentialsGrant.TOKEN_ENDPOINT_AUTH_METHODS = ["client_secret_basic", "client_secret_post"]


def model_line(c):
    if c["op"] == "assert_history":
        return assert_history_line(c)
    if c["op"] != "auth":
        return None
    h = c["header"]
    if h is not None:
        try:
            hb = h.encode("latin1")
        except UnicodeEncodeError:
            return None
    def hx(v):
        return None if v is None else v.encode().hex()
    f = c["form"]
    form = {} if c["place"] == "query" else f
    return {"clients": [{"id": cid.encode().hex(), "secret": sec.encode().hex(), "method": m} for cid, sec, m in CLIENTS],
            "req": {"authorization": None if h is None else hb.hex(), "form_client_id": hx(form.get("client_id")), "form_secret": hx(form.get("client_secret")),
                    "data_client_id": hx(f.get("client_id")), "data_secret": hx(f.get("client_secret"))},
            "methods": c["methods"], "endpoint": c["endpoint"]}


def project(c, out):
    return out


def model_canon(mo):
    if isinstance(mo, dict) and "used" in mo:
        mo = dict(mo, used=sorted(mo["used"]))
    return mo


# ---------------------------------------------------------------------------------------------- the statement, independently
def presented(c):
    """which credentials the request really carries, decoded independently of the library"""
    h = c["header"]
    res = {}
    if h and " " in h:
        parts = h.split(None, 1)
        if len(parts) == 2 and parts[0].lower() == "basic":
            try:
                raw = base64.b64decode(parts[1]).decode("utf-8")
                if ":" in raw:
                    from urllib.parse import unquote
                    u, p = raw.split(":", 1)
                    res["basic"] = (unquote(u), unquote(p))
            except Exception:
                pass
    f = c["form"]
    if c.get("place") != "query" and f.get("client_id") and f.get("client_secret"):
        res["post"] = (f["client_id"], f["client_secret"])
    if f.get("client_id") and not f.get("client_secret"):
        res["none"] = (f["client_id"], None)
    return res


LENIENT = set()


def may_authenticate(c, methods, endpoint):
    """set of (client, method) pairs the statement allows for this request"""
    ok = set()
    lenient = LENIENT
    lenient.clear()
    reg = {cid: (sec, m) for cid, sec, m in CLIENTS}
    p = presented(c)
    for name, method in (("basic", "client_secret_basic"), ("post", "client_secret_post"), ("none", "none")):
        if name in p and method in methods:
            cid, sec = p[name]
            if cid in reg and (name == "none" or (sec and sec == reg[cid][0])):
                if reg[cid][1] == method:
                    ok.add((cid, method))
                elif endpoint != "token":
                    lenient.add((cid, method))      # right credentials, but a method the client is not registered for
    return ok


def oracle(c, out):
    v = oracle_core(c, {k: x for k, x in out.items() if not k.startswith("differs:")})
    for fw in ("flask", "django"):
        if "differs:" + fw in out:
            v += [(f"[{fw} integration] {what}", dict(sig, fw=fw)) for what, sig in oracle_core(c, out["differs:" + fw])]
    return v


def oracle_core(c, out):
    v = []
    def bad(what, **sig):
        v.append((what, dict(sig, op=c["op"])))
    if "raised" in out:
        bad(f"client authentication raised {out['raised']}", kind="crash", exc=out["raised"].split(":")[0]); return v
    if c["op"] == "auth":
        allowed = may_authenticate(c, c["methods"], c["endpoint"])
        if "client" in out:
            got = (bytes.fromhex(out["client"]).decode("latin1"), out["method"])
            if got in LENIENT and got not in allowed:
                bad(f"{c['endpoint']} endpoint: {got[0]!r} authenticated through {got[1]}, a method the client is not registered for "
                    "(OAuth2ClientMixin.check_endpoint_auth_method returns True for every endpoint but 'token')", kind="method-not-registered", endpoint="non-token",
                    secretless=(got[1] == "none"))
            elif got not in allowed:
                bad(f"request treated as coming from {got[0]!r} via {got[1]} without valid credentials / permitted method", kind="authenticated-wrongly", method=got[1])
        else:
            allowed = allowed | LENIENT
            if allowed and not presented(c).keys() - {"basic", "post", "none"}:
                # valid credentials presented through a permitted method must authenticate unless an earlier method in the list raised
                first = c["methods"][0] if c["methods"] else None
                if all(m == first or True for m in c["methods"]) and len(presented(c)) == 1:
                    bad(f"valid credentials through a permitted method refused: {out}", kind="valid-refused")
            if out["invalid_client"] not in (400, 401) or out["www"] != (out["invalid_client"] == 401):
                bad(f"invalid_client answered with status {out['invalid_client']} / challenge {out['www']}", kind="status")
            only_basic = set(presented(c)) <= {"basic"} and c["header"] is not None and not c["form"]
            if only_basic and "client_secret_basic" in c["methods"] and out["invalid_client"] != 401:
                bad("Basic was the only mechanism attempted and is permitted, but the answer is not 401 + WWW-Authenticate", kind="basic-401")
    elif c["op"] == "history":
        st = out["steps"]
        authed = [e != "invalid_client" for e in st]
        want = [True, False, True, False, False] if c["how"] != "none" else [True, False, False]
        if authed != want:
            bad(f"over a history of registry changes the authentication verdicts were {st} (authenticated: {authed}), expected {want}", kind="history", how=c["how"])
    elif c["op"] == "endpoint":
        ep = c["endpoint"]
        methods = {"revocation": ["client_secret_basic", "client_secret_post"], "introspection": ["client_secret_basic", "client_secret_post"],
                   "device_authorization": ["client_secret_basic", "client_secret_post", "none"], "token:authorization_code": ["client_secret_basic", "client_secret_post", "none"],
                   "token:refresh_token": ["client_secret_basic", "client_secret_post", "none"], "token:client_credentials": ["client_secret_basic", "client_secret_post"],
                   "token:password": ["client_secret_basic", "client_secret_post", "none"], "token:device_code": ["client_secret_basic", "client_secret_post", "none"],
                   "token": ["client_secret_basic", "client_secret_post"], **SHIPPED}[ep]
        cc = dict(c, place="form")
        allowed = may_authenticate(cc, methods, "token" if ep.startswith("token") or ep.startswith("shipped:") else ep) | LENIENT
        if not allowed:
            if out["error"] != "invalid_client":
                bad(f"{ep}: request without valid client authentication answered {out['status']} {out['error']}", kind="not-invalid-client", endpoint=ep)
            if out["changed"] or out["issued"]:
                bad(f"{ep}: failed client authentication changed stored state or issued something", kind="side-effect", endpoint=ep)
            if out["status"] == 401 and not out["www"]:
                bad("401 without WWW-Authenticate", kind="status", endpoint=ep)
    elif c["op"] == "assert_history":
        accepted = set()
        for r, st in zip(c["reqs"], out["steps"]):
            if st.startswith("raised:"):
                bad(f"assertion authentication raised {st}", kind="crash", exc=st.split(":")[1], mut="history"); continue
            ok_claims = (r["type"] == "ok" and r["sub"] in ("jwtc", "jwtc2") and r["iss"] == r["sub"] and r["key"] == r["sub"] and r["jti"] is not None and r["exp"] is not None
                         and r["exp"] >= -60 and (r["aud"] == ms.TOKEN_URL or (isinstance(r["aud"], list) and ms.TOKEN_URL in r["aud"])) and r.get("nbf") is None)
            key = (r["sub"], r["jti"])
            fresh = key not in accepted
            if st.startswith("authenticated:"):
                if not ok_claims:
                    bad(f"client authenticated by an assertion that is forged, mis-addressed, expired or from a client not registered for the method: {r}", kind="authenticated-wrongly", mut="history")
                elif not fresh:
                    bad(f"an assertion with an already used jti {key} authenticated the client again", kind="authenticated-wrongly", mut="replay-history")
                elif st != "authenticated:" + r["sub"]:
                    bad(f"assertion of {r['sub']} authenticated {st}", kind="authenticated-wrongly", mut="other-client")
                accepted.add(key)
            else:
                if st != "invalid_client":
                    bad(f"failed assertion answered {st} instead of invalid_client", kind="not-invalid-client", mut="history")
                if ok_claims and fresh:
                    bad(f"valid client assertion refused ({st}): {r}", kind="valid-refused", mut="history")
    else:
        steps = out["steps"]
        mut = c["mut"]
        good = mut in ("none", "aud-list", "exp-within-leeway", "replay")
        for i, s in enumerate(steps):
            if "raised" in s:
                bad(f"assertion authentication raised {s['raised']}", kind="crash", exc=s["raised"].split(":")[0], mut=mut); continue
            want_ok = good and not (mut == "replay" and i == 1)
            if want_ok and not s["issued"]:
                bad(f"valid client assertion ({mut}) refused: {s}", kind="valid-refused", mut=mut)
            if not want_ok and s["issued"]:
                bad(f"client authenticated with a {mut} assertion", kind="authenticated-wrongly", mut=mut)
            if not want_ok and s.get("error") != "invalid_client":
                bad(f"{mut} assertion answered {s.get('error')} instead of invalid_client", kind="not-invalid-client", mut=mut)
            if not want_ok and s.get("issued"):
                bad("failed assertion issued a token", kind="side-effect", mut=mut)
    return v


def classify(c, out):
    if c["op"] == "auth":
        return "auth/" + ("ok:" + out["method"] if "client" in out else str(out.get("invalid_client", "raised")))
    if c["op"] == "endpoint":
        return f"endpoint/{c['endpoint']}/{out.get('status')}/{out.get('error')}"
    if c["op"] == "history":
        return "history/" + c["how"]
    if c["op"] == "assert_history":
        return "assert_history/" + str(len(c["reqs"]))
    return "assertion/" + c["mut"]


def nontrivial(c, out):
    return c if (c.get("header") or c.get("form") or c["op"] in ("assertion", "history")) else None


def search(breaks, rng, known, match_known):
    for c in cases(rng, "thorough"):
        o = impl(c)
        for what, sig in oracle(c, o):
            if match_known(known, sig) is None:
                return {"what": what, "sig": sig, "case": c, "impl": o}
    return None
