"""C11 — OAuth 1.0 signatures: client and server agree, follow RFC 5849 §3.4.1, detect tampering."""
import base64
import hashlib
import hmac as _hmac
import os
import itertools
from urllib.parse import urlparse, urlunparse, parse_qsl, quote as _q, unquote as _uq, urlencode

os.environ["AUTHLIB_INSECURE_TRANSPORT"] = "1"      # http:// URLs are needed for the default-port cases; transport is not C11's subject

from authlib.oauth1.rfc5849.client_auth import ClientAuth
from authlib.oauth1.rfc5849.wrapper import OAuth1Request
from authlib.oauth1.rfc5849 import signature as S
from authlib.oauth1.rfc5849.errors import OAuth1Error

RULE = ("one case = (method, URL variant, query, form body, placement, signature method, token?, realm, Host override, callback, signer: ClientAuth / the requests "
        "session / the httpx client, body handed to the server as text or bytes); the client signs, "
        "the server parses and verifies, the base string is compared with an independent RFC 5849 implementation and with the Lean model, and every "
        "single-field mutation must be rejected; non-trivial = distinct case with at least one query/body parameter")
ASSUMPTIONS = ["text is handled as UTF-8 octets in the model; parameters are valid UTF-8",
               "RSA-SHA1 is a primitive (cryptography) — not modelled; HMAC-SHA1 is computed natively in Lean and compared",
               "header rendering/parsing (parse_http_list/parse_keqv_list) is exercised end-to-end, not modelled"]

METHODS = ["GET", "post", "DELETE", "PATCH", "PUT"]
URLS = ["https://Example.com/p", "HTTPS://EXAMPLE.COM:443/p", "https://example.com:8443/p", "http://example.com:80/a/b", "http://example.com:443/x",
        "https://example.com:80/x", "https://example.com", "https://example.com/", "https://example.com/a%20b/c", "https://example.com/p;v=1",
        "http://localhost:8080/r"]
QUERIES = ["", "n=e%CC%81&m=%C3%A9", "a=1", "b=2&a=1&a=0", "a=%20+b", "c=%7E~-._", "na%C3%AFve=%E2%9C%93", "x=&y", "a=1&a=1", "q=%26%3D%25", "realm=foo", "oauth_zzz=1%252", "m=%c3%a9&u=%C3%A9"]
BODIES = [None, "", "b=2", "a=1&z=%20", "a=1", "realm=r1", "k=v+w&k=v%2Bw", "title=caf%c3%a9&qty=1", "p=%2f%2F&q=%e2%9c%93"]     # (lower-case hex digits in escapes are valid)
PLACEMENTS = ["HEADER", "QUERY", "BODY"]
SIGMETHODS = ["HMAC-SHA1", "RSA-SHA1", "PLAINTEXT"]
CALLBACKS = [None, "https://c.example/cb", "https://c.example/cb?x=%20y", "oob"]

_RSA = None


def rsa_keys():
    global _RSA
    if _RSA is None:
        from cryptography.hazmat.primitives.asymmetric import rsa
        from cryptography.hazmat.primitives import serialization as ser
        k = rsa.generate_private_key(65537, 2048)
        _RSA = (k.private_bytes(ser.Encoding.PEM, ser.PrivateFormat.TraditionalOpenSSL, ser.NoEncryption()),
                k.public_key().public_bytes(ser.Encoding.PEM, ser.PublicFormat.SubjectPublicKeyInfo))
    return _RSA


_RSA2 = None


def other_rsa_pub():
    global _RSA2
    if _RSA2 is None:
        from cryptography.hazmat.primitives.asymmetric import rsa
        from cryptography.hazmat.primitives import serialization as ser
        _RSA2 = rsa.generate_private_key(65537, 2048).public_key().public_bytes(ser.Encoding.PEM, ser.PublicFormat.SubjectPublicKeyInfo)
    return _RSA2


def cases(rng, tier):
    out = []
    n = 700 if tier == "quick" else 12000
    seen = set()
    # pairwise-ish: random product sampling, deterministic from the seed
    while len(out) < n:
        c = {"method": rng.choice(METHODS), "url": rng.choice(URLS), "query": rng.choice(QUERIES), "body": rng.choice(BODIES),
             "place": rng.choice(PLACEMENTS), "sig": rng.choice(SIGMETHODS), "token": rng.choice([True, False]),
             "realm": rng.choice([None, "photos"]), "host": rng.choice([None, None, "Other.Example:443", "other.example"]),
             "callback": rng.choice(CALLBACKS), "cs": rng.choice(["csecret", "c&s=%", "秘密", "se\u0301cret"]), "ts": rng.choice(["tsecret", "t s", ""])}
        if "oauth_" in c["query"]:
            c["place"] = "QUERY"
        if c["method"] == "GET" and c["place"] == "BODY":
            c["method"] = "POST"
        if len(out) % 4 == 1:
            c["bytes_body"] = True
        if c["host"] and len(out) % 2:
            c["host_key"] = ["host", "HOST"][len(out) % 4 // 2]
        if len(out) % 5 == 2 and c["body"]:
            c["ctype"] = ["application/x-www-form-urlencoded; charset=UTF-8", "application/x-www-form-urlencoded;charset=utf-8"][len(out) % 2]      # the media type with a parameter
        if len(out) % 7 == 3:
            c["late_token"] = True
        if len(out) % 3:
            c["signer"] = ["requests", "httpx"][len(out) % 3 - 1]      # the request goes out through the requests / httpx integration
        k = repr(sorted(c.items(), key=lambda kv: kv[0]))
        if k in seen:
            continue
        seen.add(k); out.append(c)
    return out


class _C:
    def __init__(self, cs, pub):
        self.cs, self.pub = cs, pub
    def get_client_secret(self):
        return self.cs
    def get_rsa_public_key(self):
        return self.pub


class _T:
    def __init__(self, ts):
        self.ts = ts
    def get_oauth_token_secret(self):
        return self.ts


def sign(c):
    priv, pub = rsa_keys()
    url = c["url"] + ("?" + c["query"] if c["query"] else "")
    headers = {}
    body = c["body"]
    if body is not None:
        headers["Content-Type"] = c.get("ctype") or "application/x-www-form-urlencoded"
    if c["host"]:
        # HTTP header names are case-insensitive: the requests / httpx header containers accept any spelling of the name
        headers[c.get("host_key", "Host") if c.get("signer", "core") != "core" else "Host"] = c["host"]
    kw = dict(client_secret=c["cs"], token="tok" if c["token"] else None, token_secret=c["ts"] if c["token"] else None,
              redirect_uri=c["callback"], rsa_key=priv, signature_method=c["sig"], signature_type=c["place"], realm=c["realm"])
    signer = c.get("signer", "core")
    late = c.get("late_token") and c["token"]
    if late:
        # the documented reused-client flow: the client object exists before it has a token (request token, then access token, are assigned later)
        kw.update(token=None, token_secret=None)
    tokd = {"oauth_token": "tok", "oauth_token_secret": c["ts"]}
    if signer == "requests":
        # the requests integration: what its session puts on the wire
        import requests
        from authlib.integrations.requests_client import OAuth1Session
        sess = OAuth1Session("client-id", **kw)
        if late:
            sess.token = {"oauth_token": "request-token", "oauth_token_secret": "rs"}; sess.token = tokd
        prep = sess.prepare_request(requests.Request(c["method"].upper(), url, headers=headers, data=body if body else None))
        uri, headers, body = prep.url, {k: (v.decode() if isinstance(v, bytes) else v) for k, v in prep.headers.items()}, prep.body
    elif signer == "httpx":
        from authlib.integrations.httpx_client import OAuth1Client
        cl = OAuth1Client("client-id", **kw)
        if late:
            cl.token = {"oauth_token": "request-token", "oauth_token_secret": "rs"}; cl.token = tokd
        req = cl.build_request(c["method"].upper(), url, headers=headers, content=(body or "").encode() if body is not None else None)
        req2 = next(cl.auth.auth_flow(req))
        uri, body = str(req2.url), req2.content
        headers = {k.title() if k.lower() in ("authorization", "host", "content-type") else k: v for k, v in req2.headers.items()}
        if "Content-Type" not in headers and "content-type" in headers:
            headers["Content-Type"] = headers.pop("content-type")
    else:
        ca = ClientAuth("client-id", **kw)
        if late:
            ca.token, ca.token_secret = "tok", c["ts"]
        uri, headers, body = ca.prepare(c["method"], url, headers, body if body is not None else "")
    if isinstance(body, bytes):
        body = body.decode()
    canon = {"host": "Host", "authorization": "Authorization", "content-type": "Content-Type"}
    return uri, {canon.get(k.lower(), k): v for k, v in dict(headers).items()}, body       # as the receiving HTTP server presents them


def server_request(c, method, uri, headers, body, cs=None, ts=None):
    priv, pub = rsa_keys()
    if cs == "<other-rsa-key>":
        cs, pub = None, other_rsa_pub()
    if body and c.get("bytes_body"):
        body = body.encode()               # a framework that hands the raw request body to the server
    r = OAuth1Request(method, uri, body if body else None, headers)
    r.client = _C(c["cs"] if cs is None else cs, pub)
    tsec = (c["ts"] if c["token"] else None) if ts is None else ts
    r.credential = _T(tsec) if tsec is not None else None
    return r


VERIFY = {"HMAC-SHA1": S.verify_hmac_sha1, "RSA-SHA1": S.verify_rsa_sha1, "PLAINTEXT": S.verify_plaintext}


def verify(c, r):
    try:
        return bool(VERIFY[c["sig"]](r))
    except Exception as e:
        return "raised:" + type(e).__name__


def flask_verify(c, method, uri, headers, body):
    """the same wire request through the Flask integration's entry point (flask_oauth1.ResourceProtector as a route decorator)"""
    from flask import Flask
    from authlib.integrations.flask_oauth1 import ResourceProtector
    priv, pub = rsa_keys()
    app = Flask("c11-flask")
    app.config["PROPAGATE_EXCEPTIONS"] = True
    app.config["OAUTH1_SUPPORTED_SIGNATURE_METHODS"] = list(SIGMETHODS)
    rp = ResourceProtector(app, query_client=lambda cid: _C(c["cs"], pub), query_token=lambda cid, t: _T(c["ts"]), exists_nonce=lambda *a: False)
    rp.EXPIRY_TIME = 0          # (the cases are signed at a fixed instant; the timestamp window is C12's subject)

    @rp()
    def view(p=""):
        return "served"
    allm = ["GET", "POST", "PUT", "PATCH", "DELETE"]
    app.add_url_rule("/", "root", view, methods=allm)
    app.add_url_rule("/<path:p>", "any", view, methods=allm)
    u = urlparse(uri)
    hdrs = {k: v for k, v in headers.items() if k.lower() in ("authorization", "content-type")}
    try:
        r = app.test_client().open(path=(u.path or "/") + (";" + u.params if u.params else ""), query_string=u.query, method=method.upper(), base_url=f"{u.scheme}://{u.netloc}", headers=hdrs,
                                   data=body if body else None)
        return True if r.status_code == 200 else (r.get_json(silent=True) or {}).get("error", str(r.status_code))
    except Exception as e:
        return "raised:" + type(e).__name__


def mutations(c, method, uri, headers, body):
    """single-field mutations of the signed request as the server receives it"""
    u = urlparse(uri)
    out = []
    out.append(("method", ("PUT" if method.upper() != "PUT" else "POST", uri, headers, body, None, None)))
    out.append(("scheme", (method, urlunparse(u._replace(scheme="http" if u.scheme.lower() == "https" else "https")), headers, body, None, None)))
    if "Host" not in headers:
        out.append(("host", (method, urlunparse(u._replace(netloc="evil." + u.netloc)), headers, body, None, None)))
        host = u.netloc.split(":")[0]
        out.append(("port", (method, urlunparse(u._replace(netloc=host + ":8444")), headers, body, None, None)))
    else:
        out.append(("host-header", (method, uri, dict(headers, Host="evil.example"), body, None, None)))
    out.append(("path", (method, urlunparse(u._replace(path=(u.path or "/") + "x")), headers, body, None, None)))
    q = parse_qsl(u.query, keep_blank_values=True)
    for i, (k, v) in enumerate(q):
        if k == "oauth_signature":
            continue
        q2 = list(q); q2[i] = (k, v + "x")
        out.append((f"query-value:{k}", (method, urlunparse(u._replace(query=urlencode(q2))), headers, body, None, None)))
        q3 = list(q); q3[i] = (k + "x", v)
        if not k.startswith("oauth_"):
            out.append((f"query-name:{k}", (method, urlunparse(u._replace(query=urlencode(q3))), headers, body, None, None)))
    out.append(("query-add", (method, urlunparse(u._replace(query=(u.query + "&" if u.query else "") + "extra=1")), headers, body, None, None)))
    if body:
        b = parse_qsl(body, keep_blank_values=True)
        for i, (k, v) in enumerate(b):
            if k == "oauth_signature":
                continue
            b2 = list(b); b2[i] = (k, v + "x")
            out.append((f"body-value:{k}", (method, uri, headers, urlencode(b2), None, None)))
        out.append(("body-add", (method, uri, headers, body + "&extra=1", None, None)))
    if c["sig"] == "HMAC-SHA1":
        # RFC 5849 §3.4.3: RSA-SHA1 does not use the shared secrets; there the verification key is mutated instead
        out.append(("client-secret", (method, uri, headers, body, c["cs"] + "x", None)))
        if c["token"]:
            out.append(("token-secret", (method, uri, headers, body, None, c["ts"] + "x")))
    else:
        out.append(("rsa-key", (method, uri, headers, body, "<other-rsa-key>", None)))
    return out


def impl(c):
    uri, headers, body = sign(c)
    method = c["method"]
    r = server_request(c, method, uri, headers, body)
    base = S.generate_signature_base_string(r)
    tsec = c["ts"] if c["token"] else None
    out = {"base": base.encode().hex(), "verified": verify(c, r), "placement": r.signature_type,
           "hmac": S.hmac_sha1_signature(base, c["cs"], tsec).encode().hex(),
           "plaintext": S.plaintext_signature(c["cs"], tsec).encode().hex(),
           "wire": [method, uri, headers.get("Authorization"), body]}
    acc = []
    if c["sig"] != "PLAINTEXT":
        for name, (m, u, h, b, cs, ts) in mutations(c, method, uri, headers, body):
            try:
                r2 = server_request(c, m, u, h, b, cs, ts)
                ok = verify(c, r2)
            except (OAuth1Error, ValueError) as e:
                ok = False
            if ok is True:
                acc.append(name)
            elif ok is not False:
                acc.append(name + "!" + str(ok))
    out["tamper_accepted"] = acc
    # the Flask entry point (token requests only: a protected resource needs a token; the authority as the test transport carries it)
    if c["token"] and not c["host"] and uri.startswith(("https://example.com", "http://example.com", "http://localhost")):
        out["flask_verified"] = flask_verify(c, method, uri, headers, body)
    out["ref_base"] = ref_base_string(method, uri, headers, body).encode().hex()
    # what the model needs: the server-side view
    u = urlparse(uri)
    out["_model"] = {"method": method.encode().hex(), "scheme": u.scheme.encode().hex(), "netloc": u.netloc.encode().hex(),
                     "path": u.path.encode().hex(), "uparams": u.params.encode().hex(),
                     "host": headers["Host"].encode().hex() if "Host" in headers else None,
                     "params": [[k.encode().hex(), v.encode().hex()] for k, v in r.params],
                     "cs": c["cs"].encode().hex(), "ts": (tsec or "").encode().hex()}
    return out


# the model needs the parsed request, which only exists after the real client has rendered it: two-phase
_CACHE = {}


def model_line(c):
    o = impl_cached(c)
    return o["_model"]


def impl_cached(c):
    k = repr(sorted(c.items()))
    if k not in _CACHE:
        import random
        # nonce/timestamp are random in the client: freeze them per case
        import authlib.oauth1.rfc5849.client_auth as ca
        ca.generate_nonce = lambda: "nonce" + hashlib.sha1(k.encode()).hexdigest()[:8]
        ca.generate_timestamp = lambda: "1700000000"
        _CACHE[k] = impl_real(c)
    return _CACHE[k]


def project(c, out):
    return {"base": out["base"], "hmac": out["hmac"], "plaintext": out["plaintext"]}


# ---------------------------------------------------------------- independent RFC 5849 §3.4.1 implementation (no authlib)
def pct(s):
    return _q(s.encode("utf-8"), safe="-._~")


def ref_base_string(method, uri, headers, body, quirks=()):
    u = urlparse(uri)
    scheme = u.scheme.lower()
    authority = (headers.get("Host") or u.netloc).lower()
    if ":" in authority:
        h, p = authority.rsplit(":", 1)
        if (scheme, p) in (("http", "80"), ("https", "443")):
            authority = h
    path = u.path or "/"
    if u.params:
        path += ";" + u.params
    base_uri = f"{scheme}://{authority}{path}"
    params = parse_qsl(u.query, keep_blank_values=True)
    if body and headers.get("Content-Type", "").startswith("application/x-www-form-urlencoded"):
        params += parse_qsl(body, keep_blank_values=True)
    auth = headers.get("Authorization")
    if auth and auth.lower().startswith("oauth "):
        for item in auth[6:].split(","):
            k, _, v = item.strip().partition("=")
            v = v.strip()
            if v.startswith('"') and v.endswith('"'):
                v = v[1:-1]
            k, v = _uq(k), _uq(v)
            if k != "realm":
                params.append((k, v))
    params = [(k, v) for k, v in params if k != "oauth_signature"]
    if "realm" in quirks:          # known deviation 1: every parameter called realm is dropped
        params = [(k, v) for k, v in params if k != "realm"]
    if "unescape" in quirks:       # known deviation 2: oauth_* values are percent-decoded once more
        params = [(k, _uq(v) if k.startswith("oauth_") else v) for k, v in params]
    enc = sorted((pct(k), pct(v)) for k, v in params)
    norm = "&".join(f"{k}={v}" for k, v in enc)
    return "&".join([pct(method.upper()), pct(base_uri), pct(norm)])


def oracle(c, out):
    v = []
    out = impl_cached(c)
    sig = {"place": c["place"], "sigmethod": c["sig"]}
    if out["verified"] is not True:
        v.append((f"request signed by the library's client does not verify on the library's server ({out['verified']})", dict(sig, kind="client-server-disagree")))
    if out["verified"] is True and out.get("flask_verified", True) is not True:
        v.append((f"{c['method']} request signed by the library's client ({c['place']} placement, body {c['body']!r}) verifies on the core server but the Flask resource protector answers {out['flask_verified']}",
                  dict(sig, kind="client-server-disagree", fw="flask")))
    if out["placement"] != c["place"]:
        v.append((f"server saw signature type {out['placement']}, client used {c['place']}", dict(sig, kind="placement")))
    if out["base"] != out["ref_base"]:
        m, u_, a_, b_ = out["wire"]
        hdrs = {"Authorization": a_} if a_ else {}
        if c["host"]:
            hdrs["Host"] = c["host"]
        if c["body"] is not None or c["place"] == "BODY":
            hdrs["Content-Type"] = "application/x-www-form-urlencoded"
        why = "other"
        for q, label in ((("realm",), "non-header-realm"), (("unescape",), "double-unescape"), (("realm", "unescape"), "realm+double-unescape")):
            if ref_base_string(m, u_, hdrs, b_, q).encode().hex() == out["base"]:
                why = label; break
        v.append((f"signature base string differs from RFC 5849 §3.4.1 ({why}): {bytes.fromhex(out['base']).decode()!r} vs {bytes.fromhex(out['ref_base']).decode()!r}",
                  {"kind": "base-string-differs", "why": why}))
    for name in out["tamper_accepted"]:
        field = "realm-param" if name in ("query-value:realm", "body-value:realm", "query-name:realm") else name.split(":")[0]
        v.append((f"tampered request still verifies: {name}", {"kind": "tamper-undetected", "field": field, "sigmethod": c["sig"]}))
    return v


def classify(c, out):
    return f"{c['place']}/{c['sig']}/{'ok' if out['verified'] is True else 'fail'}"


def nontrivial(c, out):
    return c if (c["query"] or c["body"]) else None


def impl_wrapper(c):
    return impl_cached(c)


def search(breaks, rng, known, match_known):
    for c in cases(rng, "thorough"):
        o = impl_cached(c)
        for what, sig in oracle(c, o):
            if match_known(known, sig) is None:
                return {"what": what, "sig": sig, "case": c, "impl": project(c, o)}
    return None


impl_real = impl
impl = impl_wrapper     # run.py calls mod.impl
