"""C04 — JWT claims validation accepts exactly the tokens its options allow (JWTClaims)."""
import itertools

from authlib.jose.rfc7519.claims import JWTClaims
from authlib.jose import errors as je

RULE = ("one case = (claims dict, options dict, now, leeway) over typed pools; structured single-claim × single-option "
        "enumeration first, then seeded random dictionaries; non-trivial = distinct case with at least one option or time claim")
ASSUMPTIONS = ["finite numbers only; every float is k/4 so that Python int/float comparisons are exact",
               "named allowances of DESIGN §3.2: value/values/validate options on exp/nbf/iat and validate on aud are ignored by the library; "
               "falsy expected values constrain nothing; aud is only checked when present and non-empty (RFC 7519 §4.1.3)"]

NAMES = ["iss", "sub", "aud", "exp", "nbf", "iat", "jti", "x"]
STRS = ["a", "b", "", "100", "99", "101"]      # digit strings: a NumericDate is a JSON number, not its text
NUMS = [0, 1, 99, 100, 101, 99.75, 100.0, 100.25, 0.0, -1]
OTHERS = [True, False, None]
LISTS = [[], ["a"], ["a", "b"], ["b", "c"], [1], [None]]
VALS = STRS + NUMS + OTHERS + LISTS
NOWS = [(100, 0), (100, 1), (100.25, 0), (100, 0.25), (99, 1), (101, 0), (0, 0)]


def enc_atom(v):
    if v is None or isinstance(v, bool) or isinstance(v, str):
        return v
    if isinstance(v, int):
        return {"i": v}
    if isinstance(v, float):
        q = v * 4
        assert q == int(q)
        return {"f": int(q)}
    raise TypeError(v)


def enc(v):
    if isinstance(v, list):
        return [enc_atom(x) for x in v]
    return enc_atom(v)


def dec_atom(j):
    if isinstance(j, dict):
        return j["i"] if "i" in j else j["f"] / 4
    return j


def dec(j):
    if isinstance(j, list):
        return [dec_atom(x) for x in j]
    return dec_atom(j)


def q4(x):
    q = x * 4
    assert q == int(q)
    return int(q)


# (a validator answers by truth value: `return redis.set(key, 1, nx=True)` is None for a replayed jti, a dict lookup gives None / 0 / "" for an unknown issuer)
VALIDATORS = [{"const": True}, {"const": False}, {"eq": "a"}, {"eq": {"i": 100}}, {"eqClaim": "iss"},
              {"const": False, "as": "None"}, {"const": False, "as": "0"}, {"const": False, "as": "''"}, {"const": False, "as": "[]"}, {"const": True, "as": "1"}, {"const": True, "as": "'ok'"}]



def mk_validator(j):
    if "const" in j:
        return lambda claims, v: eval(j["as"]) if "as" in j else j["const"]
    if "eq" in j:
        c = dec(j["eq"])
        return lambda claims, v: v == c
    n = j["eqClaim"]
    return lambda claims, v: v == claims.get(n)


def option_shapes():
    out = [{}, {"essential": True}, {"essential": False}]
    for v in ["a", "b", "", 100, 100.0, 0, True, None, ["a"], []]:
        out.append({"value": enc(v)})
        out.append({"essential": True, "value": enc(v)})
    for vs in [[], ["a"], ["a", "b"], [100, "b"], [["a"]], [None], [1, True]]:
        out.append({"values": [enc(v) for v in vs]})
    for f in VALIDATORS:
        out.append({"validate": f})
        out.append({"essential": True, "validate": f, "value": "a"})
    out.append({"value": "a", "values": ["b"]})
    out.append({"value": "b", "values": ["a", "b"]})
    return out


CONSUMER_ISS = "https://as.example/tenant"
ISS_NEAR = ["=", "+/", "-1", "[8:]", "as.example", "h", "upper", "+x", "list", "missing", "", "//"]
CONSUMERS = ["rfc7523_validator", "rfc9068_validator", "flask_parse_id_token", "django_parse_id_token", "starlette_parse_id_token"]


def consumer_cases():
    """the places where the library itself configures the issuer check for a caller: only the configured issuer passes;
    and the derived ID-Token rules (nonce, aud / azp, exp with leeway, at_hash) as the three client integrations apply them"""
    from props import c13
    # … and the audience check the RFC 7523 client-assertion validator configures (the token endpoint URL)
    auds = ["=", "+/", "-1", "+x", "upper", "list", "list-other", "missing", "", "other", "superstring", "empty-list", "zero", "false"]
    return [{"consumer": cn, "iss": y} for cn in CONSUMERS for y in ISS_NEAR] + [dict(c, consumer="rp:" + c["fw"]) for c in c13.rp_cases()] + \
        [{"consumer": "rfc7523_client_assertion", "iss": "=", "aud": a} for a in auds]


def near_iss(y):
    X = CONSUMER_ISS
    return {"=": X, "+/": X + "/", "-1": X[:-1], "[8:]": X[8:], "upper": X.upper(), "+x": X + "x", "list": [X], "missing": None, "//": X.replace("/tenant", "//tenant")}.get(y, y)


def impl_consumer(c):
    if c["consumer"].startswith("rp:"):
        from props import c13
        return c13.impl_rp(c)
    import asyncio, time as _t
    from authlib.jose import jwt as _jwt, OctKey
    import memserver as ms
    ms.install_clock(); ms.CLOCK.now = 1_000_000
    now = int(ms.CLOCK())
    iss = near_iss(c["iss"])
    key = OctKey.import_key(_K, {"kid": "k1"})
    cn = c["consumer"]
    def tok(claims, header=None):
        if iss is not None:
            claims = dict(claims, iss=iss)
        t = _jwt.encode(dict({"alg": "HS256", "kid": "k1"}, **(header or {})), claims, key)
        return t.decode() if isinstance(t, bytes) else t
    try:
        if cn == "rfc7523_client_assertion":
            from authlib.oauth2.rfc7523 import JWTBearerClientAssertion
            from authlib.oauth2.rfc6749.errors import OAuth2Error
            X = "https://as.example/tenant/token"
            aud = {"=": X, "+/": X + "/", "-1": X[:-1], "+x": X + "x", "upper": X.upper(), "list": [X], "list-other": ["https://other/token"], "missing": None, "": "", "other": "https://other/token",
                   "superstring": "https://evil.example/?u=" + X, "empty-list": [], "zero": 0, "false": False}[c["aud"]]
            cl = {"iss": "cid", "sub": "cid", "exp": now + 300, "iat": now, "jti": "j1"}
            if aud is not None:
                cl["aud"] = aud
            t = _jwt.encode({"alg": "HS256"}, cl, key)
            try:
                JWTBearerClientAssertion(X, validate_jti=False).process_assertion_claims(t.decode() if isinstance(t, bytes) else t, lambda h, p: key)
                return {"accepted": True}
            except OAuth2Error as e:
                return {"accepted": False, "error": e.error}
        if cn == "rfc7523_validator":
            from authlib.oauth2.rfc7523 import JWTBearerTokenValidator
            v = JWTBearerTokenValidator(key, issuer=CONSUMER_ISS)
            r = v.authenticate_token(tok({"exp": now + 600, "iat": now, "client_id": "c1", "grant_type": "client_credentials", "scope": "a"}))
            return {"accepted": r is not None}
        if cn == "rfc9068_validator":
            from authlib.oauth2.rfc9068 import JWTBearerTokenValidator as V9068
            from authlib.jose import KeySet
            from authlib.oauth2.rfc6749.errors import OAuth2Error

            class V(V9068):
                def get_jwks(self):
                    return KeySet([key])
            v = V(issuer=CONSUMER_ISS, resource_server="https://rs.example")
            try:
                t = v.authenticate_token(tok({"exp": now + 600, "iat": now, "aud": "https://rs.example", "sub": "u", "client_id": "c1", "jti": "j"}, {"typ": "at+jwt"}))
                v.validate_token(t, None, None)
                return {"accepted": True}
            except OAuth2Error as e:
                return {"accepted": False, "error": e.error}
        claims = {"sub": "u", "aud": "cid", "exp": now + 600, "iat": now, "nonce": "n"}
        reg = dict(client_id="cid", client_secret="sec", jwks={"keys": [dict(key.as_dict(is_private=True))]}, issuer=CONSUMER_ISS, id_token_signing_alg_values_supported=["HS256"],
                   access_token_url="https://as.example/token", authorize_url="https://as.example/authorize")
        token = {"id_token": tok(claims), "access_token": "at"}
        from authlib.jose.errors import JoseError
        try:
            if cn == "flask_parse_id_token":
                from flask import Flask
                from authlib.integrations.flask_client import OAuth
                app = Flask("c04"); app.secret_key = "x"
                oauth = OAuth(app); oauth.register("p", **reg)
                with app.test_request_context("/"):
                    ui = oauth.p.parse_id_token(token, nonce="n")
            elif cn == "django_parse_id_token":
                from django.conf import settings
                if not settings.configured:
                    settings.configure(DEBUG=False, SECRET_KEY="x", ALLOWED_HOSTS=["*"])
                from authlib.integrations.django_client import OAuth
                oauth = OAuth(); oauth.register("p", **reg)
                ui = oauth.p.parse_id_token(token, nonce="n")
            else:
                from authlib.integrations.starlette_client import OAuth
                oauth = OAuth(); oauth.register("p", **reg)
                ui = asyncio.run(oauth.p.parse_id_token(token, nonce="n"))
            return {"accepted": ui is not None}
        except JoseError as e:
            return {"accepted": False, "error": e.error}
    except Exception as e:
        return {"raised": type(e).__name__ + ": " + str(e)[:80]}


def cases(rng, tier):
    return _cases(rng, tier) + consumer_cases()


def _cases(rng, tier):
    shapes = option_shapes()
    out = []
    # single claim × single option (same or different name), exhaustive over the pools
    for name in NAMES:
        for v in VALS + ["<absent>"]:
            claims = [] if v == "<absent>" else [[name, enc(v)]]
            for sh in shapes:
                for now, lw in (NOWS if name in ("exp", "nbf", "iat") else NOWS[:1]):
                    out.append({"claims": claims, "options": [[name, sh]], "now": q4(now), "leeway": q4(lw)})
    n_rand = 6000 if tier == "quick" else 150000
    if tier == "quick":
        out = rng.sample(out, 6000)
    for _ in range(n_rand):
        names = rng.sample(NAMES, rng.randint(0, 5))
        claims = []
        for n in names:
            if n in ("exp", "nbf", "iat") and rng.random() < 0.8:
                v = rng.choice(NUMS + [True])
            elif n == "aud" and rng.random() < 0.7:
                v = rng.choice(["a", "b", ["a"], ["a", "b"], ["b", "c"], []])
            else:
                v = rng.choice(VALS)
            claims.append([n, enc(v)])
        onames = rng.sample(NAMES, rng.randint(0, 4))
        options = [[n, rng.choice(shapes)] for n in onames]
        now, lw = rng.choice(NOWS)
        out.append({"claims": claims, "options": options, "now": q4(now), "leeway": q4(lw)})
    out += derived_cases(rng, tier)
    return out


# ---- the derived claim sets: OpenID Connect ID Token classes and RFC 9068 access-token claims -----------------------
D_NOW = 1000
NONCE_POOL = ["n-0S6_WzA2Mj", "other", "", 123456, True, None, ["n-0S6_WzA2Mj"], "<absent>"]
NONCE_PARAMS = ["n-0S6_WzA2Mj", "123456", "True", "", None]
AUTH_TIME_POOL = [990, 990.5, "990", True, 0, None, [990], "<absent>"]
AMR_POOL = [["pwd"], [], "pwd", 5, None, True, "<absent>"]
AZP_POOL = ["rp", "other", "", None, 5, "<absent>"]
TYP_POOL = ["at+jwt", "AT+JWT", "application/at+jwt", "JWT", "xat+jwt", "at+jwtx", " at+jwt", "", None, 5, True, ["at+jwt"], "<absent>"]


def derived_cases(rng, tier):
    out = []
    base = {"iss": "https://op", "sub": "u1", "aud": "rp", "exp": D_NOW + 100, "iat": D_NOW - 10}
    def mk(cls, changes, params, lw=0, now=D_NOW, options=None):
        p = dict(base, nonce="n-0S6_WzA2Mj") if cls != "code" else dict(base)
        for k, v in changes.items():
            if v == "<absent>":
                p.pop(k, None)
            else:
                p[k] = v
        try:
            claims = [[k, enc(v)] for k, v in p.items()]
        except (TypeError, AssertionError):
            return
        out.append({"derived": cls, "claims": claims, "options": options or [["iss", {"essential": True, "value": "https://op"}], ["aud", {"essential": True, "value": "rp"}]],
                    "params": params, "alg": "HS256", "now": q4(now), "leeway": q4(lw)})
    for cls in ("code", "implicit", "hybrid"):
        for nv in NONCE_POOL:
            for pn in NONCE_PARAMS:
                mk(cls, {"nonce": nv}, {"nonce": pn, "client_id": "rp"})
        for av in AUTH_TIME_POOL:
            for ma in (False, True):
                mk(cls, {"auth_time": av}, {"nonce": "n-0S6_WzA2Mj", "client_id": "rp", "max_age": ma})
        for am in AMR_POOL:
            mk(cls, {"amr": am}, {"nonce": "n-0S6_WzA2Mj", "client_id": "rp"})
        for az in AZP_POOL:
            for aud in ("rp", ["rp"], ["rp", "x"], "x", ["x"]):
                for cid in ("rp", None):
                    mk(cls, {"azp": az, "aud": aud}, {"nonce": "n-0S6_WzA2Mj", "client_id": cid},
                       options=[["iss", {"essential": True, "value": "https://op"}]])
        # an explicit clock value of 0 (epoch-relative test clocks, simulated time) is a clock value, not "no clock given"
        for ch in ({"exp": 5, "iat": 0}, {"exp": 5, "iat": 0, "nbf": 3}, {"exp": 5, "iat": 4}, {"exp": 0, "iat": 0}, {"exp": -1, "iat": -5}, {"exp": 5, "iat": -2, "nbf": 0}):
            for lw in (0, 2):
                mk(cls, ch, {"nonce": "n-0S6_WzA2Mj", "client_id": "rp"}, lw=lw, now=0)
        for off, lw in ((-1, 0), (-1, 2), (-3, 2), (0, 0)):
            mk(cls, {"exp": D_NOW + off}, {"nonce": "n-0S6_WzA2Mj", "client_id": "rp"}, lw=lw)
            mk(cls, {"nbf": D_NOW - off}, {"nonce": "n-0S6_WzA2Mj", "client_id": "rp"}, lw=lw)
    at_base = {"iss": "https://as", "aud": "https://rs", "exp": D_NOW + 100, "iat": D_NOW - 10, "sub": "u1", "client_id": "c1", "jti": "j1"}
    for typ in TYP_POOL:
        for ch in ({}, {"auth_time": "x"}, {"auth_time": True}, {"amr": "pwd"}, {"scope": 0}, {"groups": False}, {"scope": ["a"]}, {"client_id": ""}, {"aud": ["x", "https://rs"]},
                   {"aud": "x"}, {"iss": "https://as/"}, {"exp": D_NOW - 1}, {"jti": "<absent>"}, {"roles": 5}, {"entitlements": "e1 e2"}):
            p = dict(at_base)
            for k, v in ch.items():
                if v == "<absent>": p.pop(k, None)
                else: p[k] = v
            c = {"derived": "at9068", "claims": [[k, enc(v)] for k, v in p.items()], "options": [], "params": {}, "issuer": "https://as", "rs": "https://rs",
                 "now": q4(D_NOW), "leeway": 0}
            if typ != "<absent>":
                c["typ"] = enc(typ)
            out.append(c)
    return out


def impl_derived(c):
    from authlib.oidc.core import CodeIDToken, ImplicitIDToken, HybridIDToken
    from authlib.oauth2.rfc9068.claims import JWTAccessTokenClaims
    payload, options, now, lw = build(c)
    if c["derived"] == "at9068":
        header = {"alg": "HS256"}
        if "typ" in c:
            header["typ"] = dec(c["typ"])
        options = {"iss": {"essential": True, "validate": lambda cl, v: v == c["issuer"]}, "exp": {"essential": True}, "aud": {"essential": True, "value": c["rs"]},
                   "sub": {"essential": True}, "client_id": {"essential": True}, "iat": {"essential": True}, "jti": {"essential": True}, "auth_time": {"essential": False},
                   "acr": {"essential": False}, "amr": {"essential": False}, "scope": {"essential": False}, "groups": {"essential": False}, "roles": {"essential": False},
                   "entitlements": {"essential": False}}
        obj = JWTAccessTokenClaims(payload, header, options)
    else:
        cls = {"code": CodeIDToken, "implicit": ImplicitIDToken, "hybrid": HybridIDToken}[c["derived"]]
        params = {k: v for k, v in c["params"].items() if v is not None and k != "max_age"}
        if c["params"].get("max_age"):
            params["max_age"] = 300
        obj = cls(payload, {"alg": c["alg"]}, options, params)
    try:
        obj.validate(now=now, leeway=lw)
        return {"ok": True}
    except je.MissingClaimError as e:
        return {"err": "missing_claim", "claim": e.description.split("'")[1]}
    except je.InvalidClaimError as e:
        return {"err": "invalid_claim", "claim": e.claim_name}
    except je.ExpiredTokenError:
        return {"err": "expired_token"}
    except je.InvalidTokenError:
        return {"err": "invalid_token"}
    except Exception as e:
        return {"raised": type(e).__name__}


def derived_violations(c, payload, now, lw):
    """the additional rules of the derived claim sets, independently"""
    bad = set()
    if c["derived"] == "at9068":
        typ = dec(c["typ"]) if "typ" in c else None
        if typ and not (isinstance(typ, str) and typ.lower() in ("at+jwt", "application/at+jwt")):
            bad.add(("value", "typ"))
        at = payload.get("auth_time")
        if at and not isinstance(at, (int, float)):
            bad.add(("value", "auth_time"))
        if payload.get("amr") and not isinstance(payload["amr"], list):
            bad.add(("value", "amr"))
        for k in ("scope", "groups", "roles", "entitlements"):
            if payload.get(k) is not None and not isinstance(payload[k], (str, list)):
                bad.add(("value", k))
        return bad
    p = c["params"]
    for k in ("iss", "sub", "aud", "exp", "iat") + (("nonce",) if c["derived"] != "code" else ()):
        if k not in payload:
            bad.add(("missing", k))
    if p.get("nonce"):
        if "nonce" not in payload:
            bad.add(("missing", "nonce"))
        elif not (isinstance(payload["nonce"], str) and payload["nonce"] == p["nonce"]):
            bad.add(("value", "nonce"))
    at = payload.get("auth_time")
    if p.get("max_age") and not at:
        bad.add(("missing", "auth_time"))
    if at and not isinstance(at, (int, float)):
        bad.add(("value", "auth_time"))
    if payload.get("amr") and not isinstance(payload["amr"], list):
        bad.add(("value", "amr"))
    # azp (OIDC Core 3.1.3.7 rules 4-5 as the library reads them): needed unless the token's only audience is the client; when present it names the client
    cid, aud, azp = p.get("client_id"), payload.get("aud"), payload.get("azp")
    if cid and aud:
        sole = aud[0] if isinstance(aud, list) and len(aud) == 1 else aud
        if sole != cid and not azp:
            bad.add(("missing", "azp"))
    if azp and cid and azp != cid:
        bad.add(("value", "azp"))
    return bad


def build(c):
    payload = {k: dec(v) for k, v in c["claims"]}
    options = {}
    for k, o in c["options"]:
        d = {}
        if "essential" in o:
            d["essential"] = o["essential"]
        if "value" in o:
            d["value"] = dec(o["value"])
        if "values" in o:
            d["values"] = [dec(v) for v in o["values"]]
        if "validate" in o:
            d["validate"] = mk_validator(o["validate"])
        options[k] = d
    def num(q):
        return q // 4 if q % 4 == 0 else q / 4
    return payload, options, num(c["now"]), num(c["leeway"])


_K = b"0123456789abcdef0123456789abcdef"


def via_decode(payload, header, cls, options, params=None):
    """the claims object as a relying party gets it: the payload signed, then decoded by JsonWebToken.decode"""
    import json as _json
    from authlib.jose import JsonWebToken
    try:
        _json.dumps(payload, allow_nan=False)
    except (TypeError, ValueError):
        return None
    jw = JsonWebToken(["HS256"])
    tok = jw.encode(dict(header, alg="HS256"), payload, _K)
    kw = {"claims_params": params} if params is not None else {}
    return jw.decode(tok, _K, claims_cls=cls, claims_options=options, **kw)


def _verdict(obj, now, lw):
    try:
        obj.validate(now=now, leeway=lw)
        return {"ok": True}
    except je.MissingClaimError as e:
        return {"err": "missing_claim", "claim": e.description.split("'")[1]}
    except je.InvalidClaimError as e:
        return {"err": "invalid_claim", "claim": e.claim_name}
    except je.ExpiredTokenError:
        return {"err": "expired_token"}
    except je.InvalidTokenError:
        return {"err": "invalid_token"}
    except Exception as e:
        return {"raised": type(e).__name__}


def impl(c):
    if c.get("consumer"):
        return impl_consumer(c)
    if c.get("derived"):
        return impl_derived(c)
    payload, options, now, lw = build(c)
    out = impl_direct(c)
    try:
        obj = via_decode(payload, {}, JWTClaims, options)
    except Exception as e:
        obj = None
        out["differs:decode"] = {"raised": "decode:" + type(e).__name__}
    if obj is not None:
        o2 = _verdict(obj, now, lw)
        if o2 != out:
            out["differs:decode"] = o2
    return out


def impl_direct(c):
    payload, options, now, lw = build(c)
    claims = JWTClaims(payload, {}, options)
    try:
        claims.validate(now=now, leeway=lw)
        return {"ok": True}
    except je.MissingClaimError as e:
        return {"err": "missing_claim", "claim": e.description.split("'")[1]}
    except je.InvalidClaimError as e:
        return {"err": "invalid_claim", "claim": e.claim_name}
    except je.ExpiredTokenError:
        return {"err": "expired_token"}
    except je.InvalidTokenError:
        return {"err": "invalid_token"}
    except Exception as e:          # anything else is outside the documented family
        return {"raised": type(e).__name__}


# ---- the property statement, written independently of the library and of the Lean model
def is_num(v):
    return isinstance(v, (int, float)) and not isinstance(v, bool)


def violated(payload, options, now, lw):
    """set of (kind, claim) constraints of the property statement that are violated"""
    bad = set()
    if "exp" in payload and not (is_num(payload["exp"]) and payload["exp"] >= now - lw):
        bad.add(("time", "exp"))
    for k in ("nbf", "iat"):
        if k in payload and not (is_num(payload[k]) and payload[k] <= now + lw):
            bad.add(("time", k))
    for k, o in options.items():
        if o.get("essential"):
            if k not in payload:
                bad.add(("missing", k))
            elif not payload[k]:
                bad.add(("empty", k))
        if k in ("exp", "nbf", "iat"):
            continue
        if k == "aud":
            aud = payload.get("aud")
            exp = o.get("values") or ([o["value"]] if o.get("value") else [])
            if aud and exp:
                auds = aud if isinstance(aud, list) else [aud]
                if not any(e in auds for e in exp):
                    bad.add(("value", "aud"))
            continue
        v = payload.get(k)
        if o.get("value") and v != o["value"]:
            bad.add(("value", k))
        if o.get("values") and v not in o["values"]:
            bad.add(("value", k))
        if o.get("validate") and not o["validate"](payload, v):
            bad.add(("value", k))
    return bad


def oracle(c, out):
    if c.get("consumer", "").startswith("rp:"):
        from props import c13
        return [(what, dict(sig, consumer=c["consumer"])) for what, sig in c13.oracle(c, out)]
    if c.get("consumer"):
        if "raised" in out:
            return [(f"{c['consumer']} raised {out['raised']}", {"kind": "crash", "exc": out["raised"].split(":")[0], "consumer": c["consumer"]})]
        if c["consumer"] == "rfc7523_client_assertion":
            want = c["aud"] in ("=", "list")
            if out["accepted"] != want:
                return [(f"RFC 7523 client-assertion validation configured for the token endpoint 'https://as.example/tenant/token' "
                         f"{'accepted' if out['accepted'] else 'refused (' + str(out.get('error')) + ')'} an assertion whose aud is the {c['aud']!r} variant",
                         {"kind": "accepted-nonconforming" if out["accepted"] else "refused-conforming", "constraint": "value", "claim": "aud", "consumer": c["consumer"]})]
            return []
        want = c["iss"] == "="
        if out["accepted"] and not want:
            return [(f"{c['consumer']} configured for issuer {CONSUMER_ISS!r} accepted a token whose iss is {near_iss(c['iss'])!r}", {"kind": "accepted-nonconforming", "constraint": "value",
                                                                                                                       "claim": "iss", "consumer": c["consumer"]})]
        if not out["accepted"] and want:
            return [(f"{c['consumer']} refused a token from its configured issuer ({out.get('error')})", {"kind": "refused-conforming", "consumer": c["consumer"]})]
        return []
    v = oracle_one(c, {k: x for k, x in out.items() if k != "differs:decode"})
    if "differs:decode" in out:
        v += [("[through JsonWebToken.decode] " + what, dict(sig, via="decode")) for what, sig in oracle_one(c, out["differs:decode"])]
    return v


def oracle_one(c, out):
    payload, options, now, lw = build(c)
    if c.get("derived"):
        if c["derived"] == "at9068":
            options = {"iss": {"essential": True, "value": c["issuer"]}, "exp": {"essential": True}, "aud": {"essential": True, "value": c["rs"]}, "sub": {"essential": True},
                       "client_id": {"essential": True}, "iat": {"essential": True}, "jti": {"essential": True}}
        bad = violated(payload, options, now, lw) | derived_violations(c, payload, now, lw)
        if "raised" in out:
            return [(f"{c['derived']} validate raised {out['raised']} (outside the JOSE error family)", {"kind": "crash", "exc": out["raised"], "derived": c["derived"]})]
        azp_in_play = False
        if "ok" in out and bad:
            return [(f"{c['derived']} claims accepted although: {sorted(bad)}", {"kind": "accepted-nonconforming", "constraint": sorted(bad)[0][0], "claim": sorted(bad)[0][1],
                                                                              "derived": c["derived"]})]
        if "ok" not in out and not bad and not azp_in_play:
            return [(f"conforming {c['derived']} claims refused with {out}", {"kind": "refused-conforming", "err": out["err"], "derived": c["derived"]})]
        return []
    bad = violated(payload, options, now, lw)
    v = []
    if "raised" in out:
        return [(f"validate raised {out['raised']} (outside the JOSE error family)", {"kind": "crash", "exc": out["raised"]})]
    if "ok" in out:
        if bad:
            v.append((f"non-conforming claims accepted; violated: {sorted(bad)}", {"kind": "accepted-nonconforming", "constraint": sorted(bad)[0][0], "claim": sorted(bad)[0][1]}))
        return v
    if not bad:
        return [(f"conforming claims refused with {out}", {"kind": "refused-conforming", "err": out["err"]})]
    e = out["err"]
    names = {
        "missing_claim": {("missing", out.get("claim"))},
        "invalid_claim": {("empty", out.get("claim")), ("value", out.get("claim")), ("time", out.get("claim"))},
        "expired_token": {("time", "exp")},
        "invalid_token": {("time", "nbf"), ("time", "iat")},
    }[e]
    if e == "invalid_claim" and ("time", out.get("claim")) in bad and is_num(payload.get(out.get("claim"))):
        names = names - {("time", out.get("claim"))}       # a numeric out-of-window value must be reported as expired / invalid_token
    if not (names & bad):
        v.append((f"error {out} does not name a violated constraint (violated: {sorted(bad)})", {"kind": "wrong-error", "err": e}))
    return v


def model_line(c):
    return None if c.get("consumer") else c


def classify(c, out):
    if c.get("consumer"):
        return f"consumer/{c['consumer']}/" + ("accepted" if out.get("accepted") else "refused")
    return out.get("err", "ok" if "ok" in out else "raised") + ("/" + out["claim"] if "claim" in out else "")


def nontrivial(c, out):
    if c.get("consumer"):
        return c
    return c if (c["options"] or any(k in ("exp", "nbf", "iat") for k, _ in c["claims"])) else None


def search(breaks, rng, known, match_known):
    for c in cases(rng, "thorough"):
        o = impl(c)
        for what, sig in oracle(c, o):
            if match_known(known, sig) is None:
                return {"what": what, "sig": sig, "case": c, "impl": o}
    return None
