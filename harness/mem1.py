"""In-memory OAuth 1.0 provider on the REAL authlib core (rfc5849 AuthorizationServer / ResourceProtector) with the semantics of
flask_oauth1.cache hooks: temporary credentials looked up by oauth_token only, nonce key nonce-timestamp-client[-token], set-on-check."""
import memserver as ms
from memserver import CLOCK, Fault
# the harness clock is installed BEFORE the OAuth 1 modules are imported, at the histories' start time: anything the library
# evaluates once at import (a default argument, a module constant) is then an OLD time, as in a long-running process
ms.install_clock()
CLOCK.now = 1_000_000
from authlib.oauth1.rfc5849 import AuthorizationServer, ResourceProtector, OAuth1Request, ClientMixin, TemporaryCredential, TokenCredentialMixin  # noqa: E402
from authlib.oauth1.rfc5849.errors import OAuth1Error  # noqa: E402


class Client1(ClientMixin):
    def __init__(self, cid, secret, default_uri, rsa_pub=None):
        self.client_id, self.secret, self.default_uri, self.rsa_pub = cid, secret, default_uri, rsa_pub

    def get_default_redirect_uri(self):
        return self.default_uri

    def get_client_secret(self):
        return self.secret

    def get_rsa_public_key(self):
        return self.rsa_pub


class TokenCred(TokenCredentialMixin):
    def __init__(self, token, secret, client_id, user_id):
        self.token, self.secret, self.client_id, self.user_id = token, secret, client_id, user_id

    def get_oauth_token(self):
        return self.token

    def get_oauth_token_secret(self):
        return self.secret


class Store1:
    def __init__(self):
        self.clients = {}
        self.temps = {}          # oauth_token -> TemporaryCredential (dict)
        self.creds = {}          # oauth_token -> TokenCred
        self.nonces = set()
        self.fresh = 0
        self.trace = []
        self.events = []
        self.fail_at = None

    def cb(self, name):
        i = len(self.trace)
        self.trace.append(name)
        if self.fail_at is not None and i == self.fail_at:
            from memserver import FAULT_CLASSES
            raise FAULT_CLASSES[getattr(self, "fault_type", None)](f"injected fault at callback #{i} {name}")
        self.events.append(name)

    def nxt(self, p):
        self.events.append("gen")
        self.fresh += 1
        return f"{p}{self.fresh}"

    def exists_nonce(self, nonce, request):
        self.cb("exists_nonce")
        key = (nonce, request.timestamp, request.client_id, request.token)
        rv = key in self.nonces
        self.nonces.add(key)
        return rv

    def snapshot(self):
        return {"temps": sorted([k, v.get("client_id"), v.get("oauth_verifier"), v.get("user_id")] for k, v in self.temps.items()),
                "creds": sorted([k, c.client_id, c.user_id] for k, c in self.creds.items())}


class Resp1:
    def __init__(self, status, payload, headers):
        self.status, self.payload, self.headers = status, payload, dict(headers)


class Server1(AuthorizationServer):
    def __init__(self, store, methods):
        self.store = store
        self.SUPPORTED_SIGNATURE_METHODS = list(methods)

    def create_oauth1_request(self, request):
        return OAuth1Request(*request)

    def handle_response(self, status_code, payload, headers):
        self.store.events.append("respond")
        return Resp1(status_code, payload, headers)

    def get_client_by_id(self, client_id):
        self.store.cb("get_client_by_id")
        return self.store.clients.get(client_id)

    def exists_nonce(self, nonce, request):
        return self.store.exists_nonce(nonce, request)

    def create_temporary_credential(self, request):
        st = self.store
        st.cb("create_temporary_credential")
        tok = {"oauth_token": st.nxt("tmp"), "oauth_token_secret": st.nxt("tsec"), "client_id": request.client_id}
        if request.redirect_uri:
            tok["oauth_callback"] = request.redirect_uri
        st.temps[tok["oauth_token"]] = TemporaryCredential(tok)
        return st.temps[tok["oauth_token"]]

    def get_temporary_credential(self, request):
        self.store.cb("get_temporary_credential")
        if not request.token:
            return None
        return self.store.temps.get(request.token)

    def delete_temporary_credential(self, request):
        self.store.cb("delete_temporary_credential")
        if request.token:
            self.store.temps.pop(request.token, None)

    def create_authorization_verifier(self, request):
        st = self.store
        st.cb("create_authorization_verifier")
        v = st.nxt("ver")
        request.credential["oauth_verifier"] = v
        request.credential["user_id"] = request.user.get_user_id()
        return v

    def create_token_credential(self, request):
        st = self.store
        st.cb("create_token_credential")
        tc = TokenCred(st.nxt("tok"), st.nxt("sec"), request.client_id, request.credential.get_user_id())
        st.creds[tc.token] = tc
        return tc


class Protector1(ResourceProtector):
    def __init__(self, store, methods):
        self.store = store
        self.SUPPORTED_SIGNATURE_METHODS = list(methods)

    def get_client_by_id(self, client_id):
        self.store.cb("get_client_by_id")
        return self.store.clients.get(client_id)

    def get_token_credential(self, request):
        # as the shipped integrations look it up: for THIS client (django: objects.get(client_id=…, oauth_token=…); Flask: query_token(client_id, oauth_token))
        self.store.cb("get_token_credential")
        c = self.store.creds.get(request.token)
        return c if c is not None and c.client_id == request.client_id else None

    def exists_nonce(self, nonce, request):
        return self.store.exists_nonce(nonce, request)


def build(methods=("HMAC-SHA1",), rsa_pub=None):
    ms.install_clock()
    st = Store1()
    st.clients["ca"] = Client1("ca", "secret-a", "https://a/cb", rsa_pub)
    st.clients["cb"] = Client1("cb", "secret-b", "https://b/cb", rsa_pub)
    st.clients["cw"] = Client1("cw", " secret-w\t", "https://w/cb", rsa_pub)
    return st, Server1(st, methods), Protector1(st, methods)
