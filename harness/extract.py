"""Regenerated layer: re-emit Lean source for everything in the code that is *data*.
Files are rewritten only when their text changes (so an unchanged tree gives a no-op lake build)."""
import os

EMITTERS = []     # (filename, function(repo) -> lean text)


def emitter(fn_name):
    def deco(f):
        EMITTERS.append((fn_name, f)); return f
    return deco


def lean_str(s):
    out = ['"']
    for ch in s:
        o = ord(ch)
        if ch == '"': out.append('\\"')
        elif ch == '\\': out.append('\\\\')
        elif ch == '\n': out.append('\\n')
        elif ch == '\t': out.append('\\t')
        elif ch == '\r': out.append('\\r')
        elif o < 32 or o == 127: out.append('\\x%02x' % o)
        else: out.append(ch)
    out.append('"')
    return "".join(out)


def lean_str_list(xs):
    return "[" + ", ".join(lean_str(x) for x in xs) + "]"


def lean_bytes(b):
    return "[" + ", ".join(str(x) for x in b) + "]"


def run(repo, lean_dir):
    import extract_data  # noqa: F401  (registers emitters)
    gen = os.path.join(lean_dir, "Generated")
    os.makedirs(gen, exist_ok=True)
    changed = []
    for name, f in EMITTERS:
        text = "-- GENERATED from the repository under verification by harness/extract.py on every run. DO NOT EDIT.\n" + f(repo)
        p = os.path.join(gen, name)
        old = open(p).read() if os.path.exists(p) else None
        if old != text:
            with open(p, "w") as fh:
                fh.write(text)
            changed.append(name)
    return changed
