#!/venv/bin/python
"""Development helper: confirm a seeded defect (tests pass, demo passes clean / fails patched), run the check on it, store under seeded/."""
import json, os, shutil, subprocess, sys
prop, tag = sys.argv[1], sys.argv[2]
root = os.environ.get("SEED_SRC", "/tmp/mut/out")          # where the agents wrote; SEED_AS renames the tag (second round: A->C, B->D)
src = f"{root}/{prop}/{tag}"
save_as = os.environ.get("SEED_AS", tag)
wt = f"/tmp/seedcheck-{prop}-{tag}"
def sh(cmd, cwd=None, env=None):
    r = subprocess.run(cmd, shell=True, cwd=cwd, env=env, stdout=subprocess.PIPE, stderr=subprocess.STDOUT, text=True)
    return r.returncode, r.stdout
phase = os.environ.get("SEED_PHASE", "all")       # validate (parallelisable, scratch worktree only) | check (serial, patches /repo) | all
stamp = f"{src}/validated.json"
if phase == "check" and os.path.exists(stamp):
    ran = json.load(open(stamp))["ran"]
    ok = True
else:
    ok = None
subprocess.run(f"git -C /repo worktree remove --force {wt}", shell=True, stderr=subprocess.DEVNULL) if ok is None else None
if ok is None:
  assert sh(f"git -C /repo worktree add -q --detach {wt} HEAD")[0] == 0
  ran = []
  try:
      rc0, out0 = sh(f"/venv/bin/python {src}/demo.py", cwd=wt)
      ran.append(f"demo on clean tree: exit {rc0}")
      ap, apo = sh(f"git apply {src}/patch.diff", cwd=wt)
      if ap != 0:
          print("PATCH DOES NOT APPLY", apo); sys.exit(1)
      rc1, out1 = sh(f"/venv/bin/python {src}/demo.py", cwd=wt)
      ran.append(f"demo with patch: exit {rc1}")
      env = dict(os.environ, VERIF_REPO=wt)
      rcb, outb = sh("/verif/harness/baseline.py", env=env)
      ran.append("baseline with patch: " + outb.strip().split("\n")[0])
  finally:
      sh(f"git -C /repo worktree remove --force {wt}")
  ok = rc0 == 0 and rc1 != 0 and rcb == 0
  print("\n".join(ran)); print("CONFIRMED" if ok else "NOT CONFIRMED")
  if not ok:
      print(out0[-500:], out1[-500:], outb[-500:]); sys.exit(1)
  json.dump({"ran": ran}, open(stamp, "w"))
if phase == "validate":
    sys.exit(0)
# run the registered check against the patched /repo
assert sh("git diff --quiet", cwd="/repo")[0] == 0, "/repo dirty"
sh(f"git apply {src}/patch.diff", cwd="/repo")
try:
    detected = {}
    for tier in (["quick"] if len(sys.argv) < 4 else ["quick", "thorough"]):
        rc, out = sh(f"./check {prop} --tier {tier}", cwd="/verif")
        line = [l for l in out.split("\n") if l.startswith("VIOLATION")]
        detected[tier] = {"exit": rc, "line": line[0] if line else None}
        if line and "replay=" in line[0] and "no-failing" not in line[0]:
            try:
                rp = json.load(open(line[0].split("replay=")[1].split()[0]))
                detected[tier]["what"] = rp.get("what")
            except Exception:
                pass
finally:
    sh("git checkout -- .", cwd="/repo")
print(json.dumps(detected, indent=1))
dst = f"/verif/seeded/{prop}-{save_as}"
os.makedirs(dst, exist_ok=True)
shutil.copy(f"{src}/patch.diff", dst); shutil.copy(f"{src}/demo.py", dst)
meta = json.load(open(f"{src}/meta.json"))
meta.update({"breaks_property": prop, "confirmed": ran, "check_result": detected,
             "how_to_run": f"git -C /repo apply seeded/{prop}-{save_as}/patch.diff && ./check {prop}; git -C /repo checkout -- ."})
json.dump(meta, open(f"{dst}/meta.json", "w"), indent=1)
