"""Independent RFC 7516 / RFC 7518 JWE implementation (compact and general JSON serialization) written directly on the
`cryptography` primitives — shares no code with authlib.  Used for interoperability in both directions and as the source of
primitive verdicts for the Lean model."""
import base64
import hashlib
import hmac
import json
import os
import struct
import zlib

from cryptography.hazmat.primitives import hashes, serialization
from cryptography.hazmat.primitives.asymmetric import ec, padding, rsa, x25519, x448
from cryptography.hazmat.primitives.ciphers import Cipher, algorithms, modes
from cryptography.hazmat.primitives.ciphers.aead import AESGCM
from cryptography.hazmat.primitives.keywrap import aes_key_unwrap, aes_key_wrap
from cryptography.hazmat.primitives.padding import PKCS7


def b64e(b):
    return base64.urlsafe_b64encode(b).rstrip(b"=").decode()


def b64d(s):
    if isinstance(s, str):
        s = s.encode()
    if not all(c in b"ABCDEFGHIJKLMNOPQRSTUVWXYZabcdefghijklmnopqrstuvwxyz0123456789-_" for c in s) or len(s) % 4 == 1:
        raise ValueError("not base64url")
    return base64.urlsafe_b64decode(s + b"=" * (-len(s) % 4))


ENC = {"A128CBC-HS256": ("cbc", 16, hashlib.sha256), "A192CBC-HS384": ("cbc", 24, hashlib.sha384), "A256CBC-HS512": ("cbc", 32, hashlib.sha512),
       "A128GCM": ("gcm", 16, None), "A192GCM": ("gcm", 24, None), "A256GCM": ("gcm", 32, None)}


def cek_len(enc):
    kind, n, _ = ENC[enc]
    return n * 2 if kind == "cbc" else n


def iv_len(enc):
    return 16 if ENC[enc][0] == "cbc" else 12


def cbc_tag(enc, mac_key, aad, iv, ct):
    _, n, h = ENC[enc]
    al = struct.pack(">Q", len(aad) * 8)
    return hmac.new(mac_key, aad + iv + ct + al, h).digest()[:n]


def content_encrypt(enc, cek, iv, aad, pt):
    kind, n, h = ENC[enc]
    if len(cek) != cek_len(enc) or len(iv) != iv_len(enc):
        raise ValueError("sizes")
    if kind == "gcm":
        out = AESGCM(cek).encrypt(iv, pt, aad)
        return out[:-16], out[-16:]
    mac_key, enc_key = cek[:n], cek[n:]
    p = PKCS7(128).padder()
    data = p.update(pt) + p.finalize()
    c = Cipher(algorithms.AES(enc_key), modes.CBC(iv)).encryptor()
    ct = c.update(data) + c.finalize()
    return ct, cbc_tag(enc, mac_key, aad, iv, ct)


def content_decrypt(enc, cek, iv, aad, ct, tag):
    """plaintext or raises"""
    kind, n, h = ENC[enc]
    if len(cek) != cek_len(enc) or len(iv) != iv_len(enc):
        raise ValueError("sizes")
    if kind == "gcm":
        if len(tag) != 16:
            raise ValueError("tag length")
        return AESGCM(cek).decrypt(iv, ct + tag, aad)
    mac_key, enc_key = cek[:n], cek[n:]
    if not hmac.compare_digest(cbc_tag(enc, mac_key, aad, iv, ct), tag):
        raise ValueError("tag")
    d = Cipher(algorithms.AES(enc_key), modes.CBC(iv)).decryptor()
    data = d.update(ct) + d.finalize()
    u = PKCS7(128).unpadder()
    return u.update(data) + u.finalize()


def concat_kdf(z, keylen_bits, alg_id, apu, apv):
    other = struct.pack(">I", len(alg_id)) + alg_id + struct.pack(">I", len(apu)) + apu + struct.pack(">I", len(apv)) + apv + struct.pack(">I", keylen_bits)
    out, counter = b"", 1
    while len(out) * 8 < keylen_bits:
        out += hashlib.sha256(struct.pack(">I", counter) + z + other).digest()
        counter += 1
    return out[:keylen_bits // 8]


RSA_PAD = {"RSA1_5": padding.PKCS1v15(), "RSA-OAEP": padding.OAEP(padding.MGF1(hashes.SHA1()), hashes.SHA1(), None),
           "RSA-OAEP-256": padding.OAEP(padding.MGF1(hashes.SHA256()), hashes.SHA256(), None)}
CURVES = {"P-256": ec.SECP256R1(), "P-384": ec.SECP384R1(), "P-521": ec.SECP521R1()}


def epk_jwk(pub):
    if isinstance(pub, ec.EllipticCurvePublicKey):
        n = pub.public_numbers()
        size = (pub.curve.key_size + 7) // 8
        crv = {256: "P-256", 384: "P-384", 521: "P-521"}[pub.curve.key_size]
        return {"kty": "EC", "crv": crv, "x": b64e(n.x.to_bytes(size, "big")), "y": b64e(n.y.to_bytes(size, "big"))}
    raw = pub.public_bytes(serialization.Encoding.Raw, serialization.PublicFormat.Raw)
    return {"kty": "OKP", "crv": "X25519" if isinstance(pub, x25519.X25519PublicKey) else "X448", "x": b64e(raw)}


def epk_load(j):
    if j["kty"] == "EC":
        size = (CURVES[j["crv"]].key_size + 7) // 8
        if len(b64d(j["x"])) != size or len(b64d(j["y"])) != size:
            # RFC 7518 §6.2.1.2 / 6.2.1.3: the coordinate octet string MUST be the full size of a coordinate for the curve
            raise ValueError("epk coordinate is not the full size of the curve")
        return ec.EllipticCurvePublicNumbers(int.from_bytes(b64d(j["x"]), "big"), int.from_bytes(b64d(j["y"]), "big"), CURVES[j["crv"]]).public_key()
    return (x25519.X25519PublicKey if j["crv"] == "X25519" else x448.X448PublicKey).from_public_bytes(b64d(j["x"]))


def ecdh(priv, pub):
    if isinstance(priv, ec.EllipticCurvePrivateKey):
        return priv.exchange(ec.ECDH(), pub)
    return priv.exchange(pub)


def gen_like(pub):
    if isinstance(pub, ec.EllipticCurvePublicKey):
        return ec.generate_private_key(pub.curve)
    return x25519.X25519PrivateKey.generate() if isinstance(pub, x25519.X25519PublicKey) else x448.X448PrivateKey.generate()


def wrap(alg, enc, key, header):
    """sender side: (cek, encrypted_key, extra header members); key = recipient's public / shared key object"""
    n = cek_len(enc)
    if alg == "dir":
        return key, b"", {}
    if alg in RSA_PAD:
        cek = os.urandom(n)
        return cek, key.encrypt(cek, RSA_PAD[alg]), {}
    if alg in ("A128KW", "A192KW", "A256KW"):
        cek = os.urandom(n)
        return cek, aes_key_wrap(key, cek), {}
    if alg in ("A128GCMKW", "A192GCMKW", "A256GCMKW"):
        cek, iv = os.urandom(n), os.urandom(12)
        out = AESGCM(key).encrypt(iv, cek, None)
        return cek, out[:-16], {"iv": b64e(iv), "tag": b64e(out[-16:])}
    if alg.startswith("ECDH-ES"):
        eph = gen_like(key)
        z = ecdh(eph, key)
        apu, apv = b64d(header.get("apu", "")), b64d(header.get("apv", ""))
        extra = {"epk": epk_jwk(eph.public_key())}
        if alg == "ECDH-ES":
            return concat_kdf(z, n * 8, enc.encode(), apu, apv), b"", extra
        bits = int(alg[-5:-2])
        kek = concat_kdf(z, bits, alg.encode(), apu, apv)
        cek = os.urandom(n)
        return cek, aes_key_wrap(kek, cek), extra
    raise ValueError(alg)


def unwrap(alg, enc, key, ek, header):
    """recipient side: the CEK or raises; key = private / shared key object"""
    n = cek_len(enc)
    if alg == "dir":
        cek = key
    elif alg in RSA_PAD:
        cek = key.decrypt(ek, RSA_PAD[alg])
    elif alg in ("A128KW", "A192KW", "A256KW"):
        if len(key) * 8 != int(alg[1:4]):
            raise ValueError("kek size")
        cek = aes_key_unwrap(key, ek)
    elif alg in ("A128GCMKW", "A192GCMKW", "A256GCMKW"):
        if len(key) * 8 != int(alg[1:4]):
            raise ValueError("kek size")
        tag = b64d(header["tag"])
        if len(tag) != 16:
            raise ValueError("tag length")
        cek = AESGCM(key).decrypt(b64d(header["iv"]), ek + tag, None)
    elif alg.startswith("ECDH-ES"):
        z = ecdh(key, epk_load(header["epk"]))
        apu, apv = b64d(header.get("apu", "")), b64d(header.get("apv", ""))
        if alg == "ECDH-ES":
            cek = concat_kdf(z, n * 8, enc.encode(), apu, apv)
        else:
            cek = aes_key_unwrap(concat_kdf(z, int(alg[-5:-2]), alg.encode(), apu, apv), ek)
    else:
        raise ValueError(alg)
    if len(cek) != n:
        raise ValueError("cek length")
    return cek


def deflate(b):
    c = zlib.compressobj(zlib.Z_DEFAULT_COMPRESSION, zlib.DEFLATED, -zlib.MAX_WBITS)
    return c.compress(b) + c.flush()


def inflate(b):
    return zlib.decompress(b, -zlib.MAX_WBITS)


def encrypt_compact(protected, plaintext, key, spaced=False):
    """spaced: the header JSON is laid out with spaces and sorted keys — a different but equally valid UTF-8 encoding of the same header"""
    alg, enc = protected["alg"], protected["enc"]
    cek, ek, extra = wrap(alg, enc, key, protected)
    protected = dict(protected, **extra)
    ps = b64e((json.dumps(protected, sort_keys=True, indent=1) if spaced else json.dumps(protected, separators=(",", ":"))).encode())
    iv = os.urandom(iv_len(enc))
    pt = deflate(plaintext) if protected.get("zip") == "DEF" else plaintext
    ct, tag = content_encrypt(enc, cek, iv, ps.encode("ascii"), pt)
    return ".".join([ps, b64e(ek), b64e(iv), b64e(ct), b64e(tag)])


def decrypt_compact(token, key):
    """(protected header, plaintext) or raises"""
    parts = token.split(".")
    if len(parts) != 5:
        raise ValueError("segments")
    ps, eks, ivs, cts, tags = parts
    protected = json.loads(b64d(ps).decode("utf-8"))
    if not isinstance(protected, dict):
        raise ValueError("header")
    alg, enc = protected["alg"], protected["enc"]
    cek = unwrap(alg, enc, key, b64d(eks), protected)
    pt = content_decrypt(enc, cek, b64d(ivs), ps.encode("ascii"), b64d(cts), b64d(tags))
    if "zip" in protected:
        if protected["zip"] != "DEF":
            raise ValueError("zip")
        pt = inflate(pt)
    return protected, pt


def encrypt_json(protected, unprotected, recipients, aad, plaintext, spaced=False):
    """general JSON serialization; recipients = [(per-recipient header, key)]; alg / enc may sit in any of the three headers"""
    merged0 = dict(protected or {}, **(unprotected or {}))
    enc = merged0["enc"]
    cek = None
    recs = []
    prot = dict(protected or {})
    for hdr, key in recipients:
        m = dict(merged0, **(hdr or {}))
        alg = m["alg"]
        if alg in ("dir", "ECDH-ES"):
            if len(recipients) != 1:
                raise ValueError("direct modes take one recipient")
            cek, ek, extra = wrap(alg, enc, key, m)
        else:
            if cek is None:
                cek = os.urandom(cek_len(enc))
            ek, extra = wrap_given(alg, enc, key, m, cek)
        recs.append({"header": dict(hdr or {}, **extra), "encrypted_key": b64e(ek)})
    ps = b64e((json.dumps(prot, sort_keys=True, indent=1) if spaced else json.dumps(prot, separators=(",", ":"))).encode()) if prot else ""
    a = ps.encode("ascii") + ((b"." + b64e(aad).encode()) if aad is not None else b"")
    iv = os.urandom(iv_len(enc))
    pt = deflate(plaintext) if merged0.get("zip") == "DEF" else plaintext
    ct, tag = content_encrypt(enc, cek, iv, a, pt)
    out = {"recipients": recs, "iv": b64e(iv), "ciphertext": b64e(ct), "tag": b64e(tag)}
    if prot:
        out["protected"] = ps
    if unprotected:
        out["unprotected"] = unprotected
    if aad is not None:
        out["aad"] = b64e(aad)
    return out


def wrap_given(alg, enc, key, header, cek):
    if alg in RSA_PAD:
        return key.encrypt(cek, RSA_PAD[alg]), {}
    if alg in ("A128KW", "A192KW", "A256KW"):
        return aes_key_wrap(key, cek), {}
    if alg in ("A128GCMKW", "A192GCMKW", "A256GCMKW"):
        iv = os.urandom(12)
        out = AESGCM(key).encrypt(iv, cek, None)
        return out[:-16], {"iv": b64e(iv), "tag": b64e(out[-16:])}
    if alg.startswith("ECDH-ES+"):
        eph = gen_like(key)
        z = ecdh(eph, key)
        kek = concat_kdf(z, int(alg[-5:-2]), alg.encode(), b64d(header.get("apu", "")), b64d(header.get("apv", "")))
        return aes_key_wrap(kek, cek), {"epk": epk_jwk(eph.public_key())}
    raise ValueError(alg)


def decrypt_json(obj, key, index):
    """decrypt as recipient `index`: (merged header, plaintext) or raises"""
    ps = obj.get("protected", "")
    protected = json.loads(b64d(ps).decode()) if ps else {}
    rec = obj["recipients"][index]
    m = dict(protected, **(obj.get("unprotected") or {}))
    m.update(rec.get("header") or {})
    alg, enc = m["alg"], m["enc"]
    cek = unwrap(alg, enc, key, b64d(rec.get("encrypted_key", "")), m)
    a = ps.encode("ascii") + ((b"." + obj["aad"].encode()) if "aad" in obj else b"")
    if "aad" in obj:
        b64d(obj["aad"])
    pt = content_decrypt(enc, cek, b64d(obj["iv"]), a, b64d(obj["ciphertext"]), b64d(obj["tag"]))
    if "zip" in m:
        if m["zip"] != "DEF":
            raise ValueError("zip")
        pt = inflate(pt)
    return m, pt
