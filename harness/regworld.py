"""C18 — dynamic client registration (RFC 7591) and configuration (RFC 7592) endpoints on an in-memory store."""
import json

from authlib.oauth2 import OAuth2Error
from authlib.oauth2.rfc6749 import AuthorizationServer
from authlib.oauth2.rfc6749.requests import JsonRequest
from authlib.oauth2.rfc7591 import ClientRegistrationEndpoint, ClientMetadataClaims
from authlib.oauth2.rfc7592 import ClientConfigurationEndpoint

INITIAL_TOKEN = "initial-access-token"


class RegClient:
    def __init__(self, info, metadata):
        self.client_info = dict(info)
        self.client_metadata = dict(metadata)
        self.reg_token = "rat-" + info["client_id"]

    def get_client_id(self):
        return self.client_info["client_id"]

    def check_client_secret(self, s):
        return isinstance(s, str) and s == self.client_info["client_secret"]


class Resp:
    def __init__(self, status, body, headers):
        self.status, self.body, self.headers = status, body, dict(headers)


class Req:
    def __init__(self, method, uri, data, headers):
        self.method, self.uri, self.data, self.headers = method, uri, data, headers


class RegWorld:
    def __init__(self, server_metadata, claims_classes=None):
        self.clients = {}
        self.saves = 0
        self.n = 0
        world = self
        self.server_metadata = server_metadata

        class Server(AuthorizationServer):
            def create_json_request(self, request):
                return JsonRequest(request.method, request.uri, json.dumps(request.data), request.headers)

            def handle_response(self, status, body, headers):
                return Resp(status, body, headers)

            def send_signal(self, *a, **k):
                pass

            def query_client(self, cid):
                return None

            def save_token(self, token, request):
                pass

        class Registration(ClientRegistrationEndpoint):
            def authenticate_token(self, request):
                return "tok" if request.headers.get("Authorization") == "Bearer " + INITIAL_TOKEN else None

            def generate_client_id(self):
                world.n += 1
                return f"client{world.n}"

            def generate_client_secret(self):
                return f"secret{world.n}"

            def get_server_metadata(self):
                return world.server_metadata

            def save_client(self, client_info, client_metadata, request):
                c = RegClient(client_info, client_metadata)
                world.clients[c.get_client_id()] = c
                world.saves += 1
                return c

        class Configuration(ClientConfigurationEndpoint):
            def authenticate_token(self, request):
                a = request.headers.get("Authorization") or ""
                for c in world.clients.values():
                    if a == "Bearer " + c.reg_token:
                        return c.reg_token
                return None

            def authenticate_client(self, request):
                # the client the registration access token was issued to
                for c in world.clients.values():
                    if c.reg_token == request.credential:
                        return c
                return None

            def revoke_access_token(self, request, token):
                pass

            def check_permission(self, client, request):
                return True

            def delete_client(self, client, request):
                world.clients.pop(client.get_client_id(), None)
                world.saves += 1

            def update_client(self, client, client_metadata, request):
                client.client_metadata = {**client.client_metadata, **client_metadata}
                world.saves += 1
                return client

            def generate_client_registration_info(self, client, request):
                return {"registration_client_uri": request.uri, "registration_access_token": client.reg_token}

            def get_server_metadata(self):
                return world.server_metadata

        self.srv = Server()
        kw = {"claims_classes": claims_classes} if claims_classes else {}
        self.srv.register_endpoint(Registration(**kw) if not claims_classes else Registration(claims_classes=claims_classes))
        self.srv.register_endpoint(Configuration(**kw) if not claims_classes else Configuration(claims_classes=claims_classes))

    def _call(self, name, method, uri, data, token):
        h = {"Content-Type": "application/json"}
        if token is not None:
            h["Authorization"] = "Bearer " + token
        before = self.snapshot()
        try:
            r = self.srv.create_endpoint_response(name, Req(method, uri, data, h))
            out = {"status": r.status, "error": (r.body or {}).get("error") if isinstance(r.body, dict) else None,
                   "body": r.body if isinstance(r.body, dict) else None}
        except Exception as e:
            import traceback
            site = "outside-library"
            for fr in reversed(traceback.extract_tb(e.__traceback__)):
                if "/authlib/" in fr.filename:
                    site = fr.filename.split("/authlib/")[-1] + ":" + fr.name; break
            out = {"raised": type(e).__name__ + ": " + str(e)[:100], "site": site}
        out["changed"] = self.snapshot() != before
        return out

    def register(self, payload, token=INITIAL_TOKEN):
        return self._call("client_registration", "POST", "https://as.example/register", payload, token)

    def update(self, cid, payload, token):
        return self._call("client_configuration", "PUT", f"https://as.example/register/{cid}", payload, token)

    def snapshot(self):
        return json.dumps({k: [c.client_info, c.client_metadata] for k, c in sorted(self.clients.items())}, sort_keys=True, default=str)
