"""Relying-party side of OpenID Connect as the client integrations implement it: `parse_id_token` of the Flask, Django and
Starlette OAuth clients (base_client/sync_openid.py, async_openid.py) on a provider registered with static metadata."""
import asyncio

import memserver as ms

ISSUER = "https://as.example/tenant"
KEY_OCTETS = b"0123456789abcdef0123456789abcdef"
OTHER_OCTETS = b"fedcba9876543210fedcba9876543210"


def keys():
    from authlib.jose import OctKey
    return OctKey.import_key(KEY_OCTETS, {"kid": "k1"}), OctKey.import_key(OTHER_OCTETS, {"kid": "k1"})


def id_token(claims, key=None, header=None):
    from authlib.jose import jwt
    k = key or keys()[0]
    t = jwt.encode(dict({"alg": "HS256", "kid": "k1"}, **(header or {})), claims, k)
    return t.decode() if isinstance(t, bytes) else t


def parse(fw, token, nonce, leeway=None, jwks=None, issuer=None, discovery=False):
    """{"accepted": bool, "error": code} — what the integration's parse_id_token says about this token response"""
    if discovery and fw != "starlette":
        # the provider is registered by its discovery document only (server_metadata_url); the document is served by a patched transport
        from unittest import mock
        import json, requests

        def send(session_self, req, **kw):
            r = requests.Response(); r.request = req; r.status_code = 200
            base = issuer or ISSUER
            r._content = json.dumps({"issuer": base, "authorization_endpoint": "https://as.example/authorize", "token_endpoint": "https://as.example/token",
                                     "id_token_signing_alg_values_supported": ["HS256"]}).encode()
            r.headers["Content-Type"] = "application/json"
            return r
        with mock.patch("requests.sessions.Session.send", send):
            return _parse(fw, token, nonce, leeway, jwks, issuer, True)
    return _parse(fw, token, nonce, leeway, jwks, issuer, False)


def _parse(fw, token, nonce, leeway, jwks, issuer, discovery):
    from authlib.jose.errors import JoseError
    k = keys()[0]
    reg = dict(client_id="cid", client_secret="sec", jwks=jwks or {"keys": [dict(k.as_dict(is_private=True))]}, issuer=issuer or ISSUER, id_token_signing_alg_values_supported=["HS256"],
               access_token_url="https://as.example/token", authorize_url="https://as.example/authorize")
    if discovery:
        for m in ("issuer", "id_token_signing_alg_values_supported", "access_token_url", "authorize_url"):
            reg.pop(m)
        reg["server_metadata_url"] = "https://as.example/.well-known/openid-configuration"
    kw = {} if leeway is None else {"leeway": leeway}
    try:
        if fw == "flask":
            from flask import Flask
            from authlib.integrations.flask_client import OAuth
            app = Flask("rpclient"); app.secret_key = "x"
            oauth = OAuth(app); oauth.register("p", **reg)
            with app.test_request_context("/"):
                ui = oauth.p.parse_id_token(token, nonce=nonce, **kw)
        elif fw == "django":
            from django.conf import settings
            if not settings.configured:
                settings.configure(DEBUG=False, SECRET_KEY="x", ALLOWED_HOSTS=["*"])
            from authlib.integrations.django_client import OAuth
            oauth = OAuth(); oauth.register("p", **reg)
            ui = oauth.p.parse_id_token(token, nonce=nonce, **kw)
        else:
            from authlib.integrations.starlette_client import OAuth
            oauth = OAuth(); oauth.register("p", **reg)
            ui = asyncio.run(oauth.p.parse_id_token(token, nonce=nonce, **kw))
        return {"accepted": ui is not None}
    except JoseError as e:
        from authlib.jose import errors as je
        out = {"accepted": False, "error": e.error}
        if isinstance(e, je.MissingClaimError):
            out["canon"] = {"err": "missing_claim", "claim": e.description.split("'")[1]}
        elif isinstance(e, je.InvalidClaimError):
            out["canon"] = {"err": "invalid_claim", "claim": e.claim_name}
        elif isinstance(e, je.ExpiredTokenError):
            out["canon"] = {"err": "expired_token"}
        elif isinstance(e, je.InvalidTokenError):
            out["canon"] = {"err": "invalid_token"}
        else:
            out["canon"] = {"err": e.error}
        return out
    except ValueError as e:            # documented: no key for this kid
        return {"accepted": False, "error": "ValueError"}
    except Exception as e:
        return {"raised": type(e).__name__ + ": " + str(e)[:80]}
