"""C19 — the protocol flows as scripted scenarios on the two reference providers, and their event traces.

A scenario is (world kind, setup ops, the op under study).  `trace(name)` runs the setup fault-free on
the real code and returns the events of the studied request: integrator callbacks in invocation order,
"gen" for every generated credential string and "respond" for the construction of the response.
The tables are emitted as Generated/Flows.lean on every run."""
import provider_hist as H

NOW0 = 1_000_000
V43 = H.V43


def _o1sig(c, ts, n, t=None):
    from props import c12
    return {"method": "HMAC-SHA1", "timestamp": str(t if t is not None else NOW0), "nonce": n, "signed_with": [c12.SECRETS[c], ts]}


def scenarios():
    A1 = ["c1", "client_secret_basic"]
    authz = {"op": "authorize", "client": "c1", "redirect": "https://c1/cb", "scope": "a b", "challenge": H.s256(V43), "method": "S256", "user": 1, "approve": True}
    redeem = {"op": "redeem", "auth": A1, "code": "code1", "redirect": "https://c1/cb", "verifier": V43}
    pw = {"op": "issue_password", "auth": A1, "user": 1, "scope": "a b"}
    dev = {"op": "device_authorize", "auth": A1, "client_id": "c1", "scope": "a"}
    sc = {
        # name: (world, setup, op)
        "authorize_code": ("oauth2", [], authz),
        "redeem_code": ("oauth2", [authz], redeem),
        "password": ("oauth2", [], pw),
        "client_credentials": ("oauth2", [], {"op": "issue_cc", "auth": A1, "scope": "a"}),
        "refresh": ("oauth2", [pw], {"op": "refresh", "auth": A1, "token": "rt2", "scope": None}),
        "device_authorize": ("oauth2", [], dev),
        "device_poll_pending": ("oauth2", [dev], {"op": "poll", "auth": A1, "dc": "dc1"}),
        "device_poll_token": ("oauth2", [dev, {"op": "user_decide", "uc": 2, "user": 1, "approve": True}], {"op": "poll", "auth": A1, "dc": "dc1"}),
        "revoke": ("oauth2", [pw], {"op": "revoke", "auth": A1, "token": "rt2", "hint": None}),
        "introspect": ("oauth2", [pw], {"op": "introspect", "auth": A1, "token": "at1", "hint": None}),
        "resource_access": ("oauth2", [pw], {"op": "access", "token": "at1", "required": ["a"]}),
        "implicit": ("oauth2", [], {"op": "implicit", "client": "pub", "redirect": "https://pub/cb", "scope": "a", "user": 1}),
    }
    oa = lambda rt, cl, uri: {"op": "oidc_authorize", "rt": rt, "client": cl, "redirect": uri, "scope": "openid a", "nonce": "n0", "user": 1}
    sc.update({
        "oidc_authorize_code": ("oidc", [], oa("code", "c1", "https://c1/cb")),
        "oidc_redeem_code": ("oidc", [oa("code", "c1", "https://c1/cb")], {"op": "redeem", "auth": A1, "code": "code1", "redirect": "https://c1/cb"}),
        "oidc_implicit_id_token": ("oidc", [], oa("id_token", "pub", "https://pub/cb")),
        "oidc_implicit_id_token_token": ("oidc", [], oa("id_token token", "pub", "https://pub/cb")),
        "oidc_hybrid_code_id_token": ("oidc", [], oa("code id_token", "c1", "https://c1/cb")),
        "oidc_hybrid_code_token": ("oidc", [], oa("code token", "c1", "https://c1/cb")),
        "oidc_hybrid_code_id_token_token": ("oidc", [], oa("code id_token token", "c1", "https://c1/cb")),
    })
    init = dict({"op": "initiate", "client": "ca", "callback": "oob", "callback_valid": False}, **_o1sig("ca", "", "i1"))
    az1 = {"op": "authorize", "token": "tmp1", "user": 1}
    ex = dict({"op": "exchange", "client": "ca", "token": "tmp1", "verifier": "ver3"}, **_o1sig("ca", "tsec2", "e1"))
    sc.update({
        "oauth1_initiate": ("oauth1", [], init),
        "oauth1_authorize": ("oauth1", [init], az1),
        "oauth1_exchange": ("oauth1", [init, az1], ex),
        "oauth1_resource": ("oauth1", [init, az1, ex], dict({"op": "access", "client": "ca", "token": "tok4"}, **_o1sig("ca", "sec5", "a1"))),
    })
    return sc


def world(kind):
    if kind == "oauth2":
        return H.World()
    if kind == "oidc":
        return H.World(oidc=True)
    from props import c12
    return c12.World1(["HMAC-SHA1"])


def cfg(kind):
    return world(kind).cfg


def trace(name):
    kind, setup, op = scenarios()[name]
    w = world(kind)
    for s in setup:
        o = w.step(s)
        assert "raised" not in o, (name, s, o)
    o = w.step(op)
    assert "raised" not in o, (name, o)
    return list(w.store.events), len(w.store.trace), o
