#!/bin/sh
# usage: try_patch.sh <patch.diff> <Cxx> [tier]   — apply to /repo, run the check, revert. Development helper.
P="$1"; ID="$2"; TIER="${3:-quick}"
cd /repo || exit 2
git diff --quiet || { echo "/repo dirty"; exit 2; }
git apply "$P" || { echo "patch does not apply"; exit 2; }
cd /verif && ./check "$ID" --tier "$TIER" 2>&1 | grep -E "VIOLATION|KNOWN|done rc|broken" 
git -C /repo checkout -- . 
